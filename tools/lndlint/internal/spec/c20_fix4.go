package spec

import (
	"go/ast"
	"go/types"
	"sort"
	"strings"

	"lndlint/internal/an"
	"lndlint/internal/flow"
)

func init() {
	specExtras["C20"] = append(specExtras["C20"], c20f4Repairs)
}

// c20f4Repairs: what the repairs 4030415 (a revived zombie is queried),
// 312a442 (only a spent output closes a channel id) and eede6b8 (one node on
// both sides) established, and who may lift an entry of the zombie index at
// all. The repair 9f8479c (a zombie is resurrected only by a fully validated
// update) is part of channel-update-admission in c20.go.
func c20f4Repairs(r *an.Run) {
	p := r.Prog
	gs := "discovery.AuthenticatedGossiper."

	r.Obl("revived-zombie-is-part-of-the-ids-to-query", "PATH",
		"VersionedGraph.FilterKnownChanIDs: once MarkEdgeLive of the loop over the known zombies succeeded, the iteration reaches neither the next iteration nor the end of the loop nor a non-failing return without `unknown = append(unknown, id)` for the very id handed to MarkEdgeLive; unknown is result 0 of the store's FilterKnownChanIDs, receives nothing else, and is what every successful return hands out",
		"a zombie whose entry was lifted is neither known nor a zombie any more: if it is not asked for in this round the channel has left the index without its announcement being fetched, and the next reply_channel_range treats it as brand new", 6,
		func(o *an.Obl) {
			f := p.Func("graph/db.VersionedGraph.FilterKnownChanIDs")
			g := f.Graph()
			src := f.Calls(an.CalleeNamed("FilterKnownChanIDs"), false)
			ml := f.Calls(an.CalleeNamed("MarkEdgeLive"), false)
			if !needExactly(o, f, "store FilterKnownChanIDs", src, 1) || !needExactly(o, f, "MarkEdgeLive", ml, 1) {
				return
			}
			unknown := c20f4ResultVar(f, src[0], 0)
			zombies := c20f4ResultVar(f, src[0], 1)
			if unknown == nil || zombies == nil {
				o.FailAt(f.ID+"#store-results", src[0].Where(), "the id set and the zombie list returned by the store are not bound to variables")
				return
			}
			idArgs := f.ArgCanon(ml[0])
			id := idArgs[len(idArgs)-1]
			o.Site("%s: MarkEdgeLive lifts %s", f.ID, id)
			// the loop the call sits in ranges over the zombies the store reported
			var head *flow.Vertex
			for _, v := range g.V {
				rs, ok := v.Node.(*ast.RangeStmt)
				if ok && v.Kind == flow.KRange && c19VarObj(f, rs.X) == zombies && rs.Body.Pos() <= ml[0].Node.Pos() && ml[0].Node.End() <= rs.Body.End() {
					head = v
				}
			}
			if head == nil {
				o.FailAt(f.ID+"#zombie-loop", ml[0].Where(), "MarkEdgeLive is not inside a loop over the zombies the store reported")
				return
			}
			// every definition of the id set
			var appends []an.Site
			_, defs := c19LocalDefs(f, unknown.Name())
			for _, d := range defs {
				if d.Obj != unknown {
					o.FailAt(f.ID+"#shadowed-"+unknown.Name(), f.Where(d.Node.Pos()), "%s declares a second variable called %s", f.ID, unknown.Name())
					continue
				}
				if as, ok := d.Node.(*ast.AssignStmt); ok && len(as.Rhs) == 1 && ast.Unparen(as.Rhs[0]) == src[0].Node {
					continue
				}
				c, _ := d.Rhs.(*ast.CallExpr)
				if d.Tok == "=" && c != nil && isAppend(f, c) && len(c.Args) == 2 && !c.Ellipsis.IsValid() && c19VarObj(f, c.Args[0]) == unknown && d.Fn == f {
					s := d.site()
					got := f.Canon(c.Args[1])
					o.Site("%s: %s", f.ID, an.Text(d.Node))
					if got != id {
						o.FailAt(f.ID+"#queried-id", s.Where(), "%s adds %s to the ids to query, expected the id whose zombie entry was lifted (%s)", an.Text(d.Node), got, id)
						continue
					}
					appends = append(appends, s)
					continue
				}
				o.FailAt(f.ID+"#id-set-rewritten", f.Where(d.Node.Pos()), "%s changes the set of ids to query; expected only the store's answer extended by revived zombies", an.Text(d.Node))
			}
			if len(appends) == 0 {
				o.FailAt(f.ID+"#revived-not-queried", ml[0].Where(), "no `%s = append(%s, %s)`: a zombie marked live is not added to the ids to query", unknown.Name(), unknown.Name(), id)
				return
			}
			stop := map[*flow.Vertex]bool{}
			for _, s := range appends {
				stop[s.V] = true
				if !g.Reach(ml[0].V, nil, nil)[s.V] {
					o.FailAt(f.ID+"#queried-before-lifted", s.Where(), "%s is not preceded by MarkEdgeLive", s.String())
				}
			}
			oke, _ := f.OkEdges(ml[0], an.OkErrNil)
			var starts []*flow.Vertex
			for e := range oke {
				starts = append(starts, e.To)
			}
			if len(starts) == 0 {
				// the outcome is not tested: every continuation may be a success
				for _, e := range ml[0].V.Out {
					starts = append(starts, e.To)
				}
			}
			var ends []an.Site
			for _, s := range f.SuccessReturns() {
				ends = append(ends, s)
			}
			for _, from := range starts {
				if stop[from] {
					continue
				}
				reach := g.Reach(from, nil, stop)
				o.Site("%s: after a successful MarkEdgeLive the id is appended before the iteration ends", f.ID)
				if reach[head] {
					o.FailAt(f.ID+"#revived-not-queried", ml[0].Where(), "after MarkEdgeLive succeeded an iteration can end without adding %s to the ids to query", id)
					break
				}
				for _, s := range ends {
					if reach[s.V] {
						o.FailAt(f.ID+"#revived-not-queried", ml[0].Where(), "after MarkEdgeLive succeeded %s is reached without adding %s to the ids to query", s.String(), id)
					}
				}
			}
			for _, s := range f.StrictSuccessReturns() {
				rs := s.Node.(*ast.ReturnStmt)
				o.Site("%s: %s", f.ID, s.String())
				if len(rs.Results) == 0 || c19VarObj(f, rs.Results[0]) != unknown {
					o.FailAt(f.ID+"#returned-set", s.Where(), "%s hands out %s, expected the id set the revived zombies were added to", s.String(), an.Text(rs))
				}
			}
		})

	r.Obl("only-a-spent-funding-output-closes-a-channel-id", "GUARD",
		"validateFundingTransaction: a return that mentions ErrChannelSpent, and every MarkZombieEdge call after the GetUtxo lookup, lies below errors.Is(err, btcwallet.ErrOutputSpent) where err is still the error GetUtxo returned (no other definition of err reaches the test or the return); a return reached after GetUtxo failed mentions none of the other classifying errors (ErrNoFundingTransaction, ErrInvalidFundingOutput); handleChanAnnouncement calls ScidCloser.PutClosedScid only below errors.Is(err, ErrChannelSpent) for the err that is result 3 of validateFundingTransaction, with the announcement's channel id, and nothing else in discovery closes a channel id except the ScidCloserMan forwarder",
		"the closed-scid index is persistent and consulted before any validation: a transient backend failure (RPC reset, neutrino timeout, shutdown) recorded as 'spent' makes the node drop the valid announcement of a live channel forever and punishes the honest sender", 8,
		func(o *an.Obl) {
			f := p.Func(gs + "validateFundingTransaction")
			g := f.Graph()
			utxo := f.Calls(an.CalleeNamed("GetUtxo"), false)
			if !needExactly(o, f, "GetUtxo", utxo, 1) {
				return
			}
			spent := an.Truth(an.CallTo("errors.Is", nil, an.LocalNamed("err"), an.PkgVar("lnwallet/btcwallet", "ErrOutputSpent")), true, "errors.Is(err, btcwallet.ErrOutputSpent)")
			// the err tested / handed out is GetUtxo's: the sites below are not
			// reachable from any other definition of err without passing GetUtxo
			errObj := c20f4ResultVar(f, utxo[0], 1)
			if errObj == nil {
				o.FailAt(f.ID+"#utxo-error", utxo[0].Where(), "the error of GetUtxo is not bound to a variable")
				return
			}
			after := g.Reach(utxo[0].V, nil, nil)
			stale := c20f4OtherDefsReach(f, errObj, utxo[0].V)
			sentinels := func(n ast.Node) []string {
				var out []string
				ast.Inspect(n, func(x ast.Node) bool {
					if id, ok := x.(*ast.Ident); ok {
						if v, ok := f.Info().Uses[id].(*types.Var); ok && v.Pkg() != nil && v.Parent() == v.Pkg().Scope() && an.Short(v.Pkg().Path()) == "discovery" && an.IsErrorType(v.Type()) {
							out = append(out, v.Name())
						}
					}
					return true
				})
				return out
			}
			check := func(s an.Site, what string) {
				guarded(o, f, s, spent)
				if !f.Before(utxo, s) {
					o.FailAt(f.ID+"#"+what+"-without-lookup", s.Where(), "%s can be reached without the GetUtxo lookup", s.String())
				}
				if stale[s.V] {
					o.FailAt(f.ID+"#"+what+"-judges-another-error", s.Where(), "%s can be reached with an err that is not the one GetUtxo returned", s.String())
				}
			}
			nSpent := 0
			for _, s := range f.Returns() {
				names := sentinels(s.Node)
				for _, n := range names {
					switch {
					case n == "ErrChannelSpent":
						nSpent++
						check(s, "spent-verdict")
					case after[s.V]:
						o.FailAt(f.ID+"#utxo-failure-classified-"+n, s.Where(), "%s: a failed GetUtxo lookup is handed out as %s", s.String(), n)
					}
				}
			}
			if nSpent == 0 {
				o.FailAt(f.ID+"#no-spent-verdict", f.Where(f.Body.Pos()), "validateFundingTransaction never reports ErrChannelSpent")
			}
			for e := range f.EdgesOf(spent) {
				if stale[e.From] || !f.Before(utxo, an.Site{Fn: f, V: e.From, Node: e.From.Node}) {
					o.FailAt(f.ID+"#spent-test-judges-another-error", f.Where(e.From.Pos()), "the ErrOutputSpent test at %s does not (only) see the error GetUtxo returned", f.Where(e.From.Pos()))
				}
			}
			for _, s := range f.Calls(an.CalleeNamed("MarkZombieEdge"), false) {
				if after[s.V] {
					check(s, "zombie-mark")
				}
			}

			// the consequence in handleChanAnnouncement
			h := p.Func(gs + "handleChanAnnouncement")
			fund := h.Calls(an.CalleeIs(gs+"validateFundingTransaction"), false)
			put := h.Calls(an.CalleeNamed("PutClosedScid"), true)
			if needExactly(o, h, "validateFundingTransaction", fund, 1) && needExactly(o, h, "PutClosedScid", put, 1) {
				herr := c20f4ResultVar(h, fund[0], 3)
				isSpent := an.Truth(an.CallTo("errors.Is", nil, an.LocalNamed("err"), an.PkgVar("discovery", "ErrChannelSpent")), true, "errors.Is(err, ErrChannelSpent)")
				hStale := map[*flow.Vertex]bool{}
				if herr != nil {
					hStale = c20f4OtherDefsReach(h, herr, fund[0].V)
				}
				if put[0].Fn != h {
					o.FailAt(h.ID+"#deferred-close", put[0].Where(), "PutClosedScid runs inside a function literal")
				} else {
					guarded(o, h, put[0], isSpent)
					before(o, h, "validateFundingTransaction", fund, "PutClosedScid", put)
					for e := range h.EdgesOf(isSpent) {
						c := ast.Unparen(e.From.Node.(ast.Expr)).(*ast.CallExpr)
						if herr == nil || c19VarObj(h, c.Args[0]) != herr || hStale[e.From] {
							o.FailAt(h.ID+"#spent-case-judges-another-error", h.Where(c.Pos()), "the ErrChannelSpent case tests a variable that is not the error of validateFundingTransaction")
						}
					}
					if a := h.ArgCanon(put[0]); len(a) != 2 || a[1] != "$p2.ShortChannelID" {
						o.FailAt(h.ID+"#closed-id", put[0].Where(), "PutClosedScid%v: expected the announcement's channel id", a)
					}
				}
			}
			var closers []string
			for _, fn := range p.Funcs(false, "discovery") {
				for range fn.Calls(an.CalleeNamed("PutClosedScid"), true) {
					closers = append(closers, fn.Root().ID)
				}
			}
			sort.Strings(closers)
			o.Site("PutClosedScid callers in discovery: %v", closers)
			for _, c := range closers {
				if c != h.ID && c != "discovery.ScidCloserMan.PutClosedScid" {
					o.FailAt(c+"#closes-channel-id", "", "%s records a channel id as closed outside the ErrChannelSpent case of handleChanAnnouncement", c)
				}
			}
		})

	r.Obl("announcement-names-two-distinct-nodes", "GUARD",
		"netann.validateChannelAnn1: every Verify call and every successful return lies below a.NodeID1 != a.NodeID2 (the comparison of the two node id fields of the announcement being validated, which is never overwritten)",
		"a channel whose two ends are one key has both directions signed by the same node: the direction bit no longer names a side, so 'signed by the node on the side its direction bit names' is void and one key controls both policies of a channel pathfinding treats as a two-party edge", 6,
		func(o *an.Obl) {
			f := p.Func("netann.validateChannelAnn1")
			distinct := an.Cmp(an.FieldPath(an.Param(0), "NodeID1"), an.NE, an.FieldPath(an.Param(0), "NodeID2"), "a.NodeID1 != a.NodeID2")
			succ := f.StrictSuccessReturns()
			if need(o, f, "successful return", succ, 1) {
				guardedAll(o, f, succ, distinct)
			}
			vs := f.Calls(an.CalleeNamed("Verify"), false)
			if need(o, f, "Verify", vs, 4) {
				guardedAll(o, f, vs, distinct)
			}
			var names []string
			for _, v := range f.Params(false) {
				names = append(names, v.Name())
			}
			notReassigned(o, f, names...)
			if ps := f.Params(false); len(ps) > 0 {
				for fld, ws := range c19FieldWrites(f, ps[0]) {
					o.FailAt(f.ID+"#announcement-rewritten-"+fld, f.Where(ws[0].Pos()), "%s rewrites the announcement being validated", an.Text(ws[0]))
				}
			}
		})

	r.Obl("zombie-index-entries-are-lifted-only-after-a-verified-update", "WHO",
		"every call of a MarkEdgeLive method (Builder, ChannelGraph, the stores, and the interfaces they implement) lies either in a MarkEdgeLive method that forwards its own channel id (a layer of the same operation, whose callers are judged instead), or in a function where it is reachable only through a successful netann.ValidateChannelUpdateAnn / VerifyChannelUpdateSignature of a channel update, and the id lifted is that update's ShortChannelID or a parameter which every caller derives from the ShortChannelID of the update it passes along; the stores' primitives (KVStore.markEdgeLiveUnsafe, DeleteZombieChannel) are used by the stores' MarkEdgeLive only",
		"the zombie index is what keeps a pruned, closed or never-funded channel from being re-fetched and re-validated; lifting an entry on anything a peer merely claims (timestamps in reply_channel_range) lets any peer resurrect it, including the entries with two blank keys that mean 'nobody may resurrect this'", 7,
		func(o *an.Obl) {
			isVerify := an.CalleeIs("netann.ValidateChannelUpdateAnn", "netann.VerifyChannelUpdateSignature")
			msgArg := func(fn *an.Func, s an.Site) ast.Expr {
				if strings.HasSuffix(an.CalleeID(fn.Info(), s.Node.(*ast.CallExpr)), "ValidateChannelUpdateAnn") {
					return callArg(s, 2)
				}
				return callArg(s, 0)
			}
			reported := map[string]bool{}
			failOnce := func(key, where, format string, a ...any) {
				if !reported[key] {
					reported[key] = true
					o.FailAt(key, where, format, a...)
				}
			}
			nLayers, nVerified := 0, 0
			for _, fn := range p.Funcs(false) {
				if fn.Lit != nil {
					continue
				}
				for _, s := range fn.Calls(an.CalleeNamed("MarkEdgeLive"), true) {
					args := s.Fn.ArgCanon(s)
					if len(args) == 0 {
						continue
					}
					id := args[len(args)-1]
					if fn.Obj != nil && fn.Obj.Name() == "MarkEdgeLive" && fn.Decl != nil && fn.Decl.Recv != nil {
						nLayers++
						o.Site("layer %s forwards %s", fn.ID, id)
						if s.Fn != fn || !reMatch(`^\$p\d(\.ToUint64\(\))?$`, id) {
							failOnce(fn.ID+"#forwards-another-id", s.Where(), "%s lifts the zombie entry of %s, expected the channel id it was handed", fn.ID, id)
						}
						continue
					}
					key := fn.ID + "#lifts-zombie-entry-without-a-verified-update"
					if s.Fn != fn {
						failOnce(key, s.Where(), "%s lifts a zombie index entry inside a function literal, where no verification of the enclosing function is known to have succeeded", fn.ID)
						continue
					}
					vs := fn.Calls(isVerify, false)
					o.Site("%s lifts %s after %d update verifications", fn.ID, id, len(vs))
					if len(vs) == 0 {
						failOnce(key, s.Where(), "%s lifts the zombie index entry of %s and verifies no channel update at all: the entry is lifted on unauthenticated input", fn.ID, id)
						continue
					}
					es, direct := fn.UnionOk(vs, an.OkErrNil)
					stop := map[*flow.Vertex]bool{}
					for _, v := range vs {
						stop[v.V] = true
					}
					if !direct[s.V] {
						if bad := fn.MustPass([]an.Site{s}, es); len(bad) > 0 {
							failOnce(key, s.Where(), "%s can lift the zombie index entry of %s without a successful verification of a channel update: %s", fn.ID, id, bad[0])
							continue
						}
						if fn.Graph().Reach(fn.Graph().Entry, nil, stop)[s.V] {
							failOnce(key, s.Where(), "%s can lift the zombie index entry of %s on a path that verifies no channel update", fn.ID, id)
							continue
						}
					}
					nVerified++
					// the entry lifted is the verified update's channel
					for _, v := range vs {
						msg := fn.Canon(msgArg(fn, v))
						switch {
						case strings.HasPrefix(id, msg+".ShortChannelID"):
						case reMatch(`^\$p\d$`, msg) && reMatch(`^\$p\d(\.ToUint64\(\))?$`, id):
							c20f4CallersTie(o, p, fn, int(id[2]-'0'), int(msg[2]-'0'))
						default:
							failOnce(fn.ID+"#lifted-channel-is-not-the-updates", s.Where(), "%s verifies the update %s and lifts the zombie entry of %s: the two are not related", fn.ID, msg, id)
						}
					}
				}
			}
			if nLayers < 2 {
				o.FailAt("MarkEdgeLive#layers", "", "expected the Builder and the ChannelGraph layer of MarkEdgeLive to forward to the layer below, found %d forwarding call sites", nLayers)
			}
			if nVerified < 1 {
				o.FailAt("MarkEdgeLive#verified-site", "", "expected processZombieUpdate to lift a zombie entry after a verified update, found no such site")
			}
			// the primitives below the stores' methods
			for _, row := range []struct {
				callee an.CallPred
				what   string
				owner  string
			}{
				{an.CalleeIs("graph/db.KVStore.markEdgeLiveUnsafe"), "markEdgeLiveUnsafe", "graph/db.KVStore.MarkEdgeLive"},
				{an.CalleeNamed("DeleteZombieChannel"), "DeleteZombieChannel", "graph/db.SQLStore.MarkEdgeLive"},
			} {
				n := 0
				for _, fn := range p.Funcs(false, "graph/db") {
					if fn.Lit != nil {
						continue
					}
					for _, s := range fn.Calls(row.callee, true) {
						n++
						o.Site("%s called by %s", row.what, fn.ID)
						if fn.ID != row.owner {
							failOnce(fn.ID+"#lifts-zombie-entry-through-"+row.what, s.Where(), "%s deletes a zombie index entry through %s, by-passing MarkEdgeLive and the rule on its callers", fn.ID, row.what)
						}
					}
				}
				if n == 0 {
					o.FailAt(row.owner+"#no-"+row.what, "", "cannot find the call of %s in %s", row.what, row.owner)
				}
			}
		})
}

// c20f4ResultVar returns the variable the idx-th result of the call at s is
// bound to (`a, b := call()` / `a, b = call()`), or nil.
func c20f4ResultVar(fn *an.Func, s an.Site, idx int) types.Object {
	var obj types.Object
	ast.Inspect(fn.Body, func(n ast.Node) bool {
		as, ok := n.(*ast.AssignStmt)
		if ok && len(as.Rhs) == 1 && ast.Unparen(as.Rhs[0]) == s.Node && idx < len(as.Lhs) {
			obj = c19VarObj(fn, as.Lhs[idx])
		}
		return obj == nil
	})
	return obj
}

// c20f4OtherDefsReach returns the vertices of fn that a definition of obj
// other than the one at vertex def can reach without passing def: at those
// vertices obj need not hold the value def gave it.
func c20f4OtherDefsReach(fn *an.Func, obj types.Object, def *flow.Vertex) map[*flow.Vertex]bool {
	out := map[*flow.Vertex]bool{}
	_, defs := c19LocalDefs(fn, obj.Name())
	for _, d := range defs {
		if d.Obj != obj || d.Tok == "zero" || d.Fn != fn {
			continue
		}
		s := d.site()
		if s.V == nil || s.V == def {
			continue
		}
		for _, e := range s.V.Out {
			if e.To == def {
				continue
			}
			for v := range fn.Graph().Reach(e.To, nil, map[*flow.Vertex]bool{def: true}) {
				if v != def {
					out[v] = true
				}
			}
		}
	}
	return out
}

// c20f4CallersTie: callee lifts the zombie entry of its parameter idParam
// after verifying the update in its parameter msgParam; every caller must
// hand over, as the id, a value derived from the ShortChannelID of the very
// update it hands over: the id expression itself, or a local all of whose
// definitions mention <update>.ShortChannelID.
func c20f4CallersTie(o *an.Obl, p *an.Prog, callee *an.Func, idParam, msgParam int) {
	n := 0
	for _, fn := range p.Funcs(false) {
		for _, s := range fn.Calls(an.CalleeIs(callee.ID), true) {
			n++
			g := s.Fn
			idE, msgE := callArg(s, idParam), callArg(s, msgParam)
			if idE == nil || msgE == nil {
				continue
			}
			want := g.Canon(msgE) + ".ShortChannelID"
			o.Site("%s hands %s (%s, %s)", fn.Root().ID, callee.ID, an.Text(idE), an.Text(msgE))
			ok := strings.HasPrefix(g.Canon(idE), want)
			if obj, isVar := c19VarObj(g, idE).(*types.Var); !ok && isVar {
				_, defs := c19LocalDefs(fn.Root(), obj.Name())
				nd := 0
				ok = true
				for _, d := range defs {
					if d.Obj != obj || d.Tok == "zero" {
						continue
					}
					nd++
					mentions := false
					ast.Inspect(d.Node, func(x ast.Node) bool {
						if e, isE := x.(ast.Expr); isE && !mentions {
							if _, isSel := e.(*ast.SelectorExpr); isSel && d.Fn.Canon(e) == want {
								mentions = true
							}
						}
						return !mentions
					})
					if !mentions || (d.Tok != "=" && d.Tok != ":=" && d.Tok != "var") {
						ok = false
						o.FailAt(fn.Root().ID+"#zombie-id-from-elsewhere", fn.Where(d.Node.Pos()), "%s gives the id whose zombie entry %s may lift the value %s, which is not derived from the ShortChannelID of the update that is verified", fn.Root().ID, callee.ID, an.Text(d.Node))
					}
				}
				if nd == 0 {
					ok = false
				}
			}
			if !ok {
				o.FailAt(fn.Root().ID+"#zombie-id-unrelated-to-update", s.Where(), "%s: the id %s handed to %s is not derived from the ShortChannelID of the update %s it hands along", fn.Root().ID, an.Text(idE), callee.ID, an.Text(msgE))
			}
		}
	}
	if n == 0 {
		o.FailAt(callee.ID+"#no-callers", "", "cannot find a caller of %s", callee.ID)
	}
}
