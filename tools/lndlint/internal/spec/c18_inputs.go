package spec

import (
	"go/ast"
	"go/token"
	"go/types"
	"strings"

	"lndlint/internal/an"
)

// c18EveryInputSpentOnce is the body of C18/every-input-spent-once.
func c18EveryInputSpentOnce(o *an.Obl, p *an.Prog) {
	tp := sw + "TxPublisher."
	f := p.Func(tp + "createSweepTx")
	// the loops are recognised by ranging over parameter 0: it must still
	// hold the requested inputs
	notReassigned(o, f, c17ParamNames(f, 0)...)
	elem := canonTerm(`^\$elem\(\$p0\)$`)
	adds := f.Calls(an.CalleeNamed("AddTxIn"), false)
	if !need(o, f, "AddTxIn", adds, 2) {
		return
	}
	var preds []string
	for _, s := range adds {
		hdr := enclosingLoopHeader(f, s.Node)
		if hdr != "$p0" {
			o.FailAt(f.ID+"#input-loop", s.Where(), "transaction inputs are added from %s, expected the requested inputs", hdr)
		}
		reqNil, _ := f.Guarded(s, an.IsNil(an.CallNamed("RequiredTxOut", elem), true, ""))
		reqSet, _ := f.Guarded(s, an.IsNil(an.CallNamed("RequiredTxOut", elem), false, ""))
		preds = append(preds, map[[2]bool]string{{true, false}: "no-required-output", {false, true}: "required-output"}[[2]bool{reqNil, reqSet}])
		o.Site("%s for inputs with %s", s.String(), preds[len(preds)-1])
		// spends the element's outpoint
		txt := f.Canon(callArg(s, 0))
		if !strings.Contains(txt, "PreviousOutPoint: $elem($p0).OutPoint()") {
			o.FailAt(f.ID+"#outpoint", s.Where(), "the transaction input does not spend the loop element's outpoint: %s", txt)
		}
	}
	if len(preds) != 2 || preds[0] == preds[1] || preds[0] == "" || preds[1] == "" {
		o.FailAt(f.ID+"#complementary", f.Where(f.Body.Pos()), "the two input loops do not partition the inputs: %v", preds)
	}
	// each loop: every non-skipped iteration passes AddTxIn
	for i, s := range adds {
		var head *an.FlowVertex
		for _, v := range f.Graph().V {
			if rs, ok := v.Node.(*ast.RangeStmt); ok && rs.Pos() <= s.Node.Pos() && s.Node.End() <= rs.End() && f.Canon(rs.X) == "$p0" {
				head = v
			}
		}
		if head == nil {
			continue
		}
		var body *an.FlowVertex
		for _, e := range head.Out {
			if e.Kind == 4 {
				body = e.To
			}
		}
		skip := an.IsNil(an.CallNamed("RequiredTxOut", elem), preds[i] == "required-output", "")
		cut := f.EdgesOf(skip)
		if body != nil && f.Graph().Reach(body, cut, map[*an.FlowVertex]bool{head: true, s.V: true})[head] {
			o.FailAt(f.ID+"#skipped-input", s.Where(), "an input of the %s class can pass its loop without getting a transaction input", preds[i])
		}
	}
	ro := f.Calls(an.CalleeNamed("AddTxOut"), false)
	nReq := 0
	for _, s := range ro {
		if strings.Contains(f.Canon(callArg(s, 0)), "RequiredTxOut()") {
			nReq++
			guarded(o, f, s, an.IsNil(an.CallNamed("RequiredTxOut", elem), false, "o.RequiredTxOut() != nil"))
			if c := f.Canon(callArg(s, 0)); c != "$elem($p0).RequiredTxOut()" {
				o.FailAt(f.ID+"#required-output-source", s.Where(), "the required output added is %s, expected the loop element's", c)
			}
		}
	}
	if nReq != 1 {
		o.FailAt(f.ID+"#required-output-sites", f.Where(f.Body.Pos()), "expected exactly one place that adds an input's required output, found %d", nReq)
	}
	c18SignedInputs(o, f, adds)
}

// c18SignedInputs: every requested input that gets a transaction input is
// also put, in the same iteration, on the list of inputs to sign, and that
// list is what the signing loop ranges over, handing (index, input) to the
// closure that crafts the witness for TxIn[index]: an input that was added
// but is not on the list stays unsigned, one listed in another order gets
// the witness of another input.
func c18SignedInputs(o *an.Obl, f *an.Func, adds []an.Site) {
	info := f.Info()
	var list types.Object
	var appends []an.Site
	for _, v := range f.Graph().V {
		as, ok := v.Node.(*ast.AssignStmt)
		if !ok || len(as.Lhs) != 1 || len(as.Rhs) != 1 || !isAppend(f, as.Rhs[0]) {
			continue
		}
		call := ast.Unparen(as.Rhs[0]).(*ast.CallExpr)
		if len(call.Args) != 2 || call.Ellipsis.IsValid() || f.Canon(call.Args[1]) != "$elem($p0)" {
			continue
		}
		l, a0 := c17ObjOfIdent(f, c17BaseIdent(as.Lhs[0])), c17ObjOfIdent(f, c17BaseIdent(call.Args[0]))
		if l == nil || l != a0 || (list != nil && l != list) {
			o.FailAt(f.ID+"#signing-list", f.Where(as.Pos()), "cannot identify the list of inputs to sign: %s", an.Text(as))
			continue
		}
		list = l
		appends = append(appends, an.Site{Fn: f, V: v, Node: as})
	}
	if list == nil {
		o.FailAt(f.ID+"#signing-list", f.Where(f.Body.Pos()), "no list collects the inputs that were added to the transaction")
		return
	}
	// all other writes of the list would reorder or drop entries
	for _, w := range c17WritesOf(f, list) {
		if w.Tok == token.VAR && w.Rhs == nil {
			continue
		}
		tabled := false
		for _, a := range appends {
			if a.Node == w.Node {
				tabled = true
			}
		}
		if !tabled {
			o.FailAt(f.ID+"#signing-list-write", f.Where(w.Node.Pos()), "the list of inputs to sign is changed by %s", an.Text(w.Node))
		}
	}
	g := f.Graph()
	for _, s := range adds {
		var head *an.FlowVertex
		for _, v := range g.V {
			if rs, ok := v.Node.(*ast.RangeStmt); ok && rs.Pos() <= s.Node.Pos() && s.Node.End() <= rs.End() && f.Canon(rs.X) == "$p0" {
				head = v
			}
		}
		if head == nil {
			continue // reported by the loop rule above
		}
		var body *an.FlowVertex
		for _, e := range head.Out {
			if e.Kind == 4 {
				body = e.To
			}
		}
		stop := map[*an.FlowVertex]bool{head: true}
		for _, a := range appends {
			stop[a.V] = true
		}
		o.Site("%s is accompanied by an append to the signing list %s", s.String(), list.Name())
		notBefore := body != nil && !stop[body] && g.Reach(body, nil, stop)[s.V]
		if body == s.V {
			notBefore = true
		}
		notAfter := false
		for _, e := range s.V.Out {
			if !stop[e.To] && g.Reach(e.To, nil, stop)[head] || e.To == head {
				notAfter = true
			}
		}
		if notBefore && notAfter {
			o.FailAt(f.ID+"#unsigned-input", s.Where(), "an input can get a transaction input at %s without being put on the list of inputs to sign", s.String())
		}
	}
	// the signing loop
	found := false
	for _, v := range g.V {
		rs, ok := v.Node.(*ast.RangeStmt)
		if !ok || c17ObjOfIdent(f, c17BaseIdent(rs.X)) != list || ast.Unparen(rs.X) != ast.Expr(c17BaseIdent(rs.X)) {
			continue
		}
		found = true
		k, _ := rs.Key.(*ast.Ident)
		val, _ := rs.Value.(*ast.Ident)
		if k == nil || val == nil || k.Name == "_" || val.Name == "_" {
			o.FailAt(f.ID+"#signing-loop", f.Where(rs.Pos()), "the signing loop does not take index and input from the list")
			continue
		}
		ko, vo := info.Defs[k], info.Defs[val]
		var calls []an.Site
		var lit *ast.FuncLit
		for _, c := range f.AllCalls(false) {
			call := c.Node.(*ast.CallExpr)
			if call.Pos() < rs.Body.Pos() || call.End() > rs.Body.End() || len(call.Args) != 2 {
				continue
			}
			a0, _ := ast.Unparen(call.Args[0]).(*ast.Ident)
			a1, _ := ast.Unparen(call.Args[1]).(*ast.Ident)
			if a0 == nil || a1 == nil || info.Uses[a0] != ko || info.Uses[a1] != vo {
				continue
			}
			if fid, ok := ast.Unparen(call.Fun).(*ast.Ident); ok {
				if fl, ok := f.UniqueDef(fid).(*ast.FuncLit); ok {
					lit = fl
					calls = append(calls, c)
				}
			}
		}
		o.Site("signing loop over %s at %s", list.Name(), f.Where(rs.Pos()))
		if len(calls) == 0 || lit == nil {
			o.FailAt(f.ID+"#signing-loop", f.Where(rs.Pos()), "the signing loop does not hand (index, input) of the list to the signing closure")
			continue
		}
		everyIteration(o, f, "^"+regexpQuote(f.Canon(rs.X))+"$", calls, "signing the listed input")
		// the closure signs input p1 for transaction input p0
		lf := f.LitFunc(lit)
		crafts := lf.Calls(an.CalleeNamed("CraftInputScript"), false)
		if needExactly(o, lf, "CraftInputScript", crafts, 1) {
			c := lf.Canon(crafts[0].Node.(*ast.CallExpr))
			if !strings.HasPrefix(c, "$lit.p1.CraftInputScript(") || !strings.HasSuffix(c, ", $lit.p0)") {
				o.FailAt(lf.ID+"#craft", crafts[0].Where(), "the witness is crafted by %s, expected the listed input for its own index", c)
			}
			nW := 0
			for _, s := range lf.Assigns(an.FieldPath(an.Any(), "Witness"), false) {
				as, _ := s.Node.(*ast.AssignStmt)
				if as == nil || len(as.Lhs) != 1 {
					continue
				}
				nW++
				if l := lf.Canon(as.Lhs[0]); !strings.HasSuffix(l, ".TxIn[$lit.p0].Witness") {
					o.FailAt(lf.ID+"#witness-index", s.Where(), "the witness is stored in %s, expected the transaction input of the same index", l)
				}
			}
			if nW == 0 {
				o.FailAt(lf.ID+"#witness-index", lf.Where(lit.Pos()), "the crafted witness is not stored in the transaction")
			}
		}
	}
	if !found {
		o.FailAt(f.ID+"#signing-loop", f.Where(f.Body.Pos()), "no loop signs the inputs collected in %s", list.Name())
	}
}
