package chainntnfs_test

import (
	"testing"

	"github.com/btcsuite/btcd/wire/v2"
	"github.com/lightningnetwork/lnd/chainntnfs"
	"github.com/stretchr/testify/require"
)

// Suspicion 4 (design): a client that was told "3 confirmations" is not told
// anything when the block that gave the third confirmation is disconnected.
func TestProbe4PartialReorgKeepsConfirmed(t *testing.T) {
	hintCache := newMockHintCache()
	n := chainntnfs.NewTxNotifier(
		10, chainntnfs.ReorgSafetyLimit, hintCache, hintCache,
	)

	tx := wire.MsgTx{Version: 22}
	tx.AddTxOut(&wire.TxOut{PkScript: testRawScript})
	txHash := tx.TxHash()

	reg, err := n.RegisterConf(&txHash, testRawScript, 3, 5)
	require.NoError(t, err)
	require.NoError(t, n.UpdateConfDetails(
		reg.HistoricalDispatch.ConfRequest, nil,
	))

	require.NoError(t, n.ConnectTip(probeBlock(11, &tx), 11))
	require.NoError(t, n.NotifyHeight(11))
	require.NoError(t, n.ConnectTip(probeBlock(12), 12))
	require.NoError(t, n.NotifyHeight(12))
	require.NoError(t, n.ConnectTip(probeBlock(13), 13))
	require.NoError(t, n.NotifyHeight(13))

	select {
	case <-reg.Event.Confirmed:
	default:
		t.Fatal("expected 3-conf notification at 13")
	}

	// Blocks 13 and 12 are disconnected: the tx has 1 confirmation.
	require.NoError(t, n.DisconnectTip(13))
	require.NoError(t, n.DisconnectTip(12))

	select {
	case d := <-reg.Event.NegativeConf:
		t.Logf("reorg notice depth %d", d)
	default:
		t.Errorf("client believes tx has 3 confs, it has 1, and no " +
			"reorg notice was sent")
	}
}
