package spec

import (
	"go/ast"
	"go/token"
	"go/types"
	"regexp"
	"strings"

	"lndlint/internal/an"
	"lndlint/internal/flow"
)

// windowDiscipline: log indexes are compared against commitment bounds with
// exclusive upper bounds everywhere: idx < bound means covered, idx >= bound
// means not yet covered. Shared by C01, C02 and C03.
func windowDiscipline(r *an.Run) {
	p := r.Prog
	r.Obl("log-index-window-discipline", "GUARD",
		"every comparison of an update's LogIndex against a commitment bound in lnwallet and channeldb uses `<` or `>=` (never `<=` or `>`), and the selection sites that decide which updates are covered by a commitment, persisted as unsigned, or restored as already applied are guarded by exactly the documented bound: fetchHTLCView (< index), getUnsignedAckedUpdates (>= signed, < acked), restorePendingRemoteUpdates (< pending commit's remote index; < remote log index), unsignedLocalUpdates (< remote bound, >= local bound), UpdateChannelCommitment (>= the new commitment's LocalLogIndex kept), AdvanceCommitChainTail (>= the stored diff's RemoteLogIndex kept), the two store filters visiting every stored update; every caller of fetchHTLCView (through forwarding functions) passes an index into the remote log as their bound and one into the local log as our bound, and ReceiveRevocation passes (remote tip, local tail) local indexes to unsignedLocalUpdates",
		"the bound is exclusive on every side of the protocol; one site using an inclusive bound counts one update twice or drops it, which desynchronises the two peers only when an update index coincides with the bound (crossing signatures plus a restart)", 20,
		func(o *an.Obl) {
			re := regexp.MustCompile(`\.LogIndex (<=|>=|<|>|==|!=) |(<=|>=|<|>|==|!=) [^ ]*\.LogIndex\)$`)
			n := 0
			for _, f := range p.Funcs(false, "lnwallet", "channeldb") {
				for _, v := range f.Graph().V {
					if v.Kind != flow.KCond {
						continue
					}
					be, ok := ast.Unparen(v.Node.(ast.Expr)).(*ast.BinaryExpr)
					if !ok {
						continue
					}
					c := f.AtomCanon(v)
					if !re.MatchString(c) {
						continue
					}
					l, rr := f.Canon(be.X), f.Canon(be.Y)
					if !strings.HasSuffix(l, ".LogIndex") && !strings.HasSuffix(rr, ".LogIndex") {
						continue
					}
					n++
					op := be.Op.String()
					if strings.HasSuffix(rr, ".LogIndex") && !strings.HasSuffix(l, ".LogIndex") {
						// bound OP idx  ==  idx OP' bound
						op = map[string]string{"<": ">", ">": "<", "<=": ">=", ">=": "<=", "==": "==", "!=": "!="}[op]
					}
					o.Site("%s %s: LogIndex %s bound", f.ID, f.Where(v.Pos()), op)
					if op == "<=" || op == ">" {
						o.FailAt(f.ID+"#logindex-"+op, f.Where(v.Pos()), "%s compares a log index with `%s` against a bound; every bound in the protocol is exclusive (`<` covered, `>=` not covered): %s", f.ID, op, an.Text(v.Node))
					}
				}
			}
			if n < 10 {
				o.FailAt("window#sites", "", "expected at least 10 log-index comparisons, found %d", n)
			}
			idx := an.FieldPath(nil, "LogIndex")
			type site struct {
				fn    string
				sites func(f *an.Func) []an.Site
				facts []an.Fact
			}
			appendTo := func(name string) func(f *an.Func) []an.Site {
				return func(f *an.Func) []an.Site {
					var out []an.Site
					for _, s := range f.Assigns(an.LocalNamed(name), false) {
						if as, ok := s.Node.(*ast.AssignStmt); ok && len(as.Rhs) == 1 && isAppend(f, as.Rhs[0]) {
							out = append(out, s)
						}
					}
					return out
				}
			}
			table := []site{
				{lw + "LightningChannel.fetchHTLCView", appendTo("ourHTLCs"), []an.Fact{an.CmpX(idx, an.LT, an.Param(1), "LogIndex < ourLogIndex")}},
				{lw + "LightningChannel.fetchHTLCView", appendTo("theirHTLCs"), []an.Fact{an.CmpX(idx, an.LT, an.Param(0), "LogIndex < theirLogIndex")}},
				{lw + "LightningChannel.getUnsignedAckedUpdates", appendTo("logUpdates"), []an.Fact{
					an.CmpX(idx, an.GE, canonTerm(`commitChains\.Remote\.tail\(\)\.messageIndices\.Remote$`), "LogIndex >= remote tail's remote index"),
					an.CmpX(idx, an.LT, canonTerm(`commitChains\.Local\.tail\(\)\.messageIndices\.Remote$`), "LogIndex < local tail's remote index")}},
				{lw + "LightningChannel.unsignedLocalUpdates", appendTo("localPeerUpdates"), []an.Fact{
					an.CmpX(idx, an.LT, an.Param(0), "LogIndex < remoteMessageIndex (on the remote commitment)"),
					an.CmpX(idx, an.GE, an.Param(1), "LogIndex >= localMessageIndex (not on our commitment)")}},
				{lw + "LightningChannel.restorePendingRemoteUpdates", func(f *an.Func) []an.Site {
					return f.Assigns(an.LocalNamed("heightSet"), false)
				}, []an.Fact{an.CmpX(idx, an.LT, an.FieldPath(an.FieldPath(an.Param(2), "messageIndices"), "Remote"), "LogIndex < pendingRemoteCommit.messageIndices.Remote"),
					an.IsNil(an.Param(2), false, "pendingRemoteCommit != nil")}},
				{lw + "LightningChannel.restorePendingRemoteUpdates", func(f *an.Func) []an.Site {
					return f.Calls(an.CalleeIs(lw+"updateLog.restoreUpdate"), false)
				}, []an.Fact{an.CmpX(idx, an.LT, an.FieldPath(an.FieldPath(an.FieldPath(nil, "updateLogs"), "Remote"), "logIndex"), "LogIndex < updateLogs.Remote.logIndex")}},
			}
			for _, t := range table {
				f := p.Func(t.fn)
				ss := t.sites(f)
				if len(ss) == 0 {
					o.FailAt(t.fn+"#window-site-missing", f.Where(f.Body.Pos()), "selection site not found in %s", t.fn)
				}
				guardedAll(o, f, ss, t.facts...)
			}
			for _, t := range []struct{ fn, list, bound, base string }{
				// the bound is the index of the commitment this transition makes
				// current: the one handed in / the one of the stored diff
				{"channeldb.ChannelStateDB.UpdateChannelCommitment", "unsignedUpdates", "LocalLogIndex", `^\$p1\.LocalLogIndex$`},
				{"channeldb.ChannelStateDB.AdvanceCommitChainTail", "validUpdates", "RemoteLogIndex", `^channeldb\.deserializeCommitDiff\(bytes\.NewReader\(.*\.Get\(channeldb\.commitDiffKey\)\)\)\.Commitment\.RemoteLogIndex$`},
			} {
				cl := theLit(p.Func(t.fn), kvUpdate, "kvdb.Update")
				ss := appendTo(t.list)(cl)
				if len(ss) != 1 {
					o.FailAt(t.fn+"#window-site-missing", cl.Where(cl.Body.Pos()), "expected one append to %s, found %d", t.list, len(ss))
					continue
				}
				guarded(o, cl, ss[0], an.CmpX(idx, an.GE, canonTerm(t.base), "LogIndex >= the new commitment's "+t.bound))
				c02ParamsStable(o, cl)
				// the filter looks at every stored update: one that is skipped is
				// neither kept as unsigned nor recorded as locked in
				if hdr := enclosingLoopHeader(cl, ss[0].Node); hdr == "" {
					o.FailAt(t.fn+"#window-loop", ss[0].Where(), "the append to %s is not inside the loop over the stored updates", t.list)
				} else {
					loopVisitsAll(o, cl, "^"+regexpQuote(hdr)+"$")
				}
			}
			for _, fn := range []string{"fetchHTLCView", "getUnsignedAckedUpdates", "unsignedLocalUpdates", "restorePendingRemoteUpdates"} {
				c02ParamsStable(o, p.Func(lw+"LightningChannel."+fn))
			}
			// the callers hand the bounds over in the order of the parameters:
			// an index into the remote log as "their" bound, one into the local
			// log as "our" bound, through every forwarding function
			c02LogIndexArg(o, p, lw+"LightningChannel.fetchHTLCView", 0, "their", 0)
			c02LogIndexArg(o, p, lw+"LightningChannel.fetchHTLCView", 1, "our", 0)
			if us := p.Func(lw+"LightningChannel.ReceiveRevocation").Calls(an.CalleeIs(lw+"LightningChannel.unsignedLocalUpdates"), false); needExactly(o, p.Func(lw+"LightningChannel.ReceiveRevocation"), "unsignedLocalUpdates", us, 1) {
				c02ArgsAre(o, p.Func(lw+"LightningChannel.ReceiveRevocation"), us[0], "unsignedLocalUpdates", map[int]string{
					0: `^\$recv\.commitChains\.Remote\.tip\(\)\.messageIndices\.Local$`,
					1: `^\$recv\.commitChains\.Local\.tail\(\)\.messageIndices\.Local$`})
			}
		})

	r.Obl("restore-dispatch-complete", "REG",
		"the two loops of restoreStateLogs that recover add heights from persisted settle/fail updates handle the same set of wire messages, including update_fulfill_htlc, update_fail_htlc and update_fail_malformed_htlc; the update-type switches that set commit heights, convert to log updates and classify uncommitted updates name every update type; setCommitHeight records the add height for adds, the remove height for removals and both for fee updates; the map feeding the restored addCommitHeights.Local holds only the local commitment's height (keyed by its offered HTLCs and by the parents of the unsigned acked updates), the one feeding addCommitHeights.Remote the (pending, then acked) remote commitment's height for its received HTLCs and the remote height for the parents of the peer-unsigned local updates",
		"an update type missing from one dispatch is restored with a zero height (or not at all) only for that rarely used message, and the next signature after a restart is rejected", 7,
		func(o *an.Obl) {
			f := p.Func(lw + "LightningChannel.restoreStateLogs")
			var sets [][]string
			ast.Inspect(f.Body, func(n ast.Node) bool {
				ts, ok := n.(*ast.TypeSwitchStmt)
				if !ok {
					return true
				}
				var names []string
				for _, cl := range ts.Body.List {
					for _, e := range cl.(*ast.CaseClause).List {
						names = append(names, an.TypeID(f.Info().TypeOf(e)))
					}
				}
				sets = append(sets, names)
				o.Site("restoreStateLogs type switch at %s: %v", f.Where(ts.Pos()), names)
				return true
			})
			if len(sets) != 2 {
				o.FailAt(f.ID+"#type-switches", f.Where(f.Body.Pos()), "expected two message type switches, found %d", len(sets))
			}
			for _, s := range sets {
				for _, w := range []string{"lnwire.UpdateFulfillHTLC", "lnwire.UpdateFailHTLC", "lnwire.UpdateFailMalformedHTLC"} {
					found := false
					for _, x := range s {
						found = found || x == w
					}
					if !found {
						o.FailAt(f.ID+"#missing-"+w, f.Where(f.Body.Pos()), "a restore loop of restoreStateLogs does not handle %s (handles %v)", w, s)
					}
				}
			}
			all := p.EnumConsts("lnwallet", "updateType")
			want := map[string][][]string{
				lw + "paymentDescriptor.setCommitHeight":   {{"Add", "NoOpAdd"}, {"Settle", "Fail", "MalformedFail"}, {"FeeUpdate"}},
				lw + "paymentDescriptor.toLogUpdate":       {{"Add", "NoOpAdd"}, {"Settle"}, {"Fail"}, {"MalformedFail"}, {"FeeUpdate"}},
				lw + "LightningChannel.createCommitDiff":   {{"Add", "NoOpAdd"}, {"Settle", "Fail", "MalformedFail"}, {"FeeUpdate"}},
				lw + "LightningChannel.evaluateHTLCView#1": {{"Settle", "Fail", "MalformedFail"}},
				lw + "LightningChannel.evaluateHTLCView#2": {{"Add", "NoOpAdd"}, {"FeeUpdate"}, {"Settle", "Fail", "MalformedFail"}},
			}
			seen := map[string]int{}
			for _, es := range p.EnumSwitches("lnwallet", "updateType", "lnwallet") {
				key := es.Fn.ID
				seen[key]++
				if _, ok := want[key]; !ok {
					key = key + "#" + itoa(seen[es.Fn.ID])
				}
				groups, ok := want[key]
				if !ok {
					continue
				}
				o.Site("%s: %v default=%v", key, es.Clauses, es.HasDefault)
				delete(want, key)
				for _, g := range groups {
					// the group must appear inside one clause
					okg := false
					for _, cl := range es.Clauses {
						has := 0
						for _, c := range g {
							for _, x := range cl {
								if x == c {
									has++
								}
							}
						}
						okg = okg || has == len(g)
					}
					if !okg {
						o.FailAt(key+"#group-"+strings.Join(g, "+"), es.Where, "%s: the update types %v are no longer handled together in one case (clauses: %v)", key, g, es.Clauses)
					}
				}
				_ = all
			}
			for k := range want {
				o.FailAt(k+"#switch-missing", "", "update-type switch %s not found", k)
			}
			c02CommitHeightArms(o, p)
			c02AddHeightRecovery(o, p)
		})
}

func isAppend(f *an.Func, e ast.Expr) bool {
	c, ok := ast.Unparen(e).(*ast.CallExpr)
	return ok && an.CalleeID(f.Info(), c) == "builtin.append"
}

// c02LogIndexSide classifies the canonical form of a log-index bound: an index
// into our (local) update log or into their (remote) one.
func c02LogIndexSide(c string) string {
	switch {
	case reMatch(`(messageIndices\.Local|updateLogs\.Local\.logIndex)$`, c):
		return "our"
	case reMatch(`(messageIndices\.Remote|updateLogs\.Remote\.logIndex)$`, c):
		return "their"
	}
	return ""
}

// c02LogIndexArg: at every non-test call site of callee in lnwallet argument
// argIdx is an index of the wanted side; a caller that forwards one of its own
// parameters is checked at its call sites in turn.
func c02LogIndexArg(o *an.Obl, p *an.Prog, callee string, argIdx int, side string, depth int) {
	n := 0
	for _, f := range p.Funcs(false, "lnwallet") {
		for _, s := range f.Calls(an.CalleeIs(callee), false) {
			n++
			a := f.ArgCanon(s)
			if argIdx >= len(a) {
				continue
			}
			c := a[argIdx]
			o.Site("%s passes %s as the %s log index of %s", f.ID, c, side, callee)
			if got := c02LogIndexSide(c); got != "" {
				if got != side {
					o.FailAt(constructOf(f, s)+"#log-index-side-"+itoa(argIdx), s.Where(), "%s passes %s (an index into the %s log) where %s expects the bound for the %s log", f.ID, c, got, callee, side)
				}
				continue
			}
			if m := regexp.MustCompile(`^\$p(\d+)$`).FindStringSubmatch(c); m != nil && depth < 3 {
				i := 0
				for _, ch := range m[1] {
					i = i*10 + int(ch-'0')
				}
				c02ParamsStable(o, f)
				c02LogIndexArg(o, p, f.Root().ID, i, side, depth+1)
				continue
			}
			o.FailAt(constructOf(f, s)+"#log-index-origin-"+itoa(argIdx), s.Where(), "%s passes %s as the %s log index of %s: neither a commitment's message index / a log counter of that side nor a forwarded parameter", f.ID, c, side, callee)
		}
	}
	if n == 0 {
		o.FailAt(callee+"#no-callers", "", "no call site of %s found", callee)
	}
}

// c02CommitHeightArms: what the arms of paymentDescriptor.setCommitHeight do:
// adds record the add height, removals the remove height, fee updates both,
// always for the chain and height handed in.
func c02CommitHeightArms(o *an.Obl, p *an.Prog) {
	f := p.Func(lw + "paymentDescriptor.setCommitHeight")
	c02ParamsStable(o, f)
	sets := f.Calls(an.CalleeNamed("SetForParty"), false)
	if !need(o, f, "SetForParty", sets, 4) {
		return
	}
	for _, s := range sets {
		c02ArgsAre(o, f, s, "SetForParty", map[int]string{0: `^\$p0$`, 1: `^\$p1$`})
	}
	want := map[string]string{
		"Add": "addCommitHeights", "NoOpAdd": "addCommitHeights",
		"Settle": "removeCommitHeights", "Fail": "removeCommitHeights", "MalformedFail": "removeCommitHeights",
		"FeeUpdate": "addCommitHeights,removeCommitHeights",
	}
	for _, k := range []string{"Add", "NoOpAdd", "Settle", "Fail", "MalformedFail", "FeeUpdate"} {
		reach := f.ReachUnder(entryKindDecide(k))
		got := map[string]bool{}
		for _, s := range sets {
			if !reach[s.V] {
				continue
			}
			fun := f.Canon(s.Node.(*ast.CallExpr).Fun)
			got[strings.TrimSuffix(strings.TrimPrefix(fun, "$recv."), ".SetForParty")] = true
		}
		g := keys(got)
		sortStrings(g)
		o.Site("setCommitHeight: entry type %s sets %v", k, g)
		if strings.Join(g, ",") != want[k] {
			o.FailAt(f.ID+"#arm-"+k, f.Where(f.Body.Pos()), "setCommitHeight sets %v for a %s entry, expected %s", g, k, want[k])
		}
	}
}

// c02AddHeightRecovery: the two maps of restoreStateLogs that carry the add
// heights into the restored HTLCs.  The map that feeds addCommitHeights.Local
// only ever holds the local commitment's height, keyed by the HTLCs we offered
// on it and by the parents of the acked-but-unsigned remote removals; the map
// that feeds addCommitHeights.Remote holds the height of the (pending) remote
// commitment for the HTLCs received on it and the remote commitment's height
// for the parents of our removals the peer still has to sign.
func c02AddHeightRecovery(o *an.Obl, p *an.Prog) {
	f := p.Func(lw + "LightningChannel.restoreStateLogs")
	c02ParamsStable(o, f)
	info := f.Info()
	// consumers: htlc.addCommitHeights.<Side> = M[...]
	maps := map[string]types.Object{}
	type write struct {
		m             types.Object
		hdr, key, val string
		at            string
	}
	var writes []write
	ast.Inspect(f.Body, func(n ast.Node) bool {
		as, ok := n.(*ast.AssignStmt)
		if !ok || len(as.Lhs) != 1 || len(as.Rhs) != 1 {
			return true
		}
		if l := an.Text(as.Lhs[0]); strings.HasSuffix(l, ".addCommitHeights.Local") || strings.HasSuffix(l, ".addCommitHeights.Remote") {
			if ix, ok := ast.Unparen(as.Rhs[0]).(*ast.IndexExpr); ok {
				side := l[strings.LastIndex(l, ".")+1:]
				if old, dup := maps[side]; dup && old != c02ObjOf(f, ix.X) {
					o.FailAt(f.ID+"#add-height-maps-"+side, f.Where(as.Pos()), "addCommitHeights.%s is fed from two different maps", side)
				}
				maps[side] = c02ObjOf(f, ix.X)
				o.Site("restoreStateLogs: addCommitHeights.%s <- %s inside the loop over %s", side, an.Text(as.Rhs[0]), enclosingLoopHeader(f, as))
			}
		}
		if ix, ok := ast.Unparen(as.Lhs[0]).(*ast.IndexExpr); ok {
			if _, isMap := info.TypeOf(ix.X).Underlying().(*types.Map); isMap {
				key := f.Canon(ix.Index)
				if id, ok := ast.Unparen(ix.Index).(*ast.Ident); ok {
					// a key variable set in the arms of a message type switch
					var forms []string
					keyObj := c02ObjOf(f, id)
					for _, ks := range f.Assigns(func(fn *an.Func, e ast.Expr) bool { return c02ObjOf(fn, e) == keyObj }, false) {
						ka, ok := ks.Node.(*ast.AssignStmt)
						if !ok {
							continue
						}
						if len(ka.Rhs) == 1 {
							forms = append(forms, reSub(`\$v:\*lnwire\.[A-Za-z]+`, "$$msg", f.Canon(ka.Rhs[0])))
							continue
						}
						if len(ka.Lhs) != len(ka.Rhs) {
							continue
						}
						// a parallel assignment `key, found = e, true|false` (the
						// results of a helper spliced at its call site): the key
						// that comes with found=false never reaches a write that
						// is only reachable under found
						for i, l := range ka.Lhs {
							if c02ObjOf(f, l) != keyObj {
								continue
							}
							dead := false
							for j, r := range ka.Rhs {
								flag := c02ObjOf(f, ka.Lhs[j])
								if j == i || flag == nil || f.Canon(r) != "false" {
									continue
								}
								if b, isB := flag.Type().Underlying().(*types.Basic); !isB || b.Kind() != types.Bool {
									continue
								}
								isFlag := func(fn *an.Func, e ast.Expr) bool { return c02ObjOf(fn, e) == flag }
								for _, ws := range f.Assigns(func(fn *an.Func, e ast.Expr) bool { return e.Pos() == ix.Pos() && e.End() == ix.End() }, false) {
									if g, n := f.Guarded(ws, an.Truth(isFlag, true, "found")); g && n > 0 {
										dead = true
									}
								}
							}
							if !dead {
								forms = append(forms, reSub(`\$v:\*lnwire\.[A-Za-z]+`, "$$msg", f.Canon(ka.Rhs[i])))
							}
						}
					}
					key = strings.Join(uniq(forms), "|")
				}
				writes = append(writes, write{c02ObjOf(f, ix.X), enclosingLoopHeader(f, as), key, f.Canon(as.Rhs[0]), f.Where(as.Pos())})
			}
		}
		return true
	})
	if maps["Local"] == nil || maps["Remote"] == nil || maps["Local"] == maps["Remote"] {
		o.FailAt(f.ID+"#add-height-maps", f.Where(f.Body.Pos()), "cannot find the two distinct maps that feed addCommitHeights.Local and addCommitHeights.Remote of the restored HTLCs")
		return
	}
	want := map[string][]string{
		"Local": {
			"$p0.outgoingHTLCs [$elem($p0.outgoingHTLCs).HtlcIndex] = $p0.height",
			"$p5 [$msg.ID] = $p0.height",
		},
		"Remote": {
			"$p1.incomingHTLCs [$elem($p1.incomingHTLCs).HtlcIndex] = $p1.height",
			"$p2.incomingHTLCs [$elem($p2.incomingHTLCs).HtlcIndex] = $p2.height",
			"$p6 [$msg.ID] = $p1.height",
		},
	}
	for _, side := range []string{"Local", "Remote"} {
		var got []string
		for _, w := range writes {
			if w.m == maps[side] {
				got = append(got, w.hdr+" ["+w.key+"] = "+w.val)
			}
		}
		sortStrings(got)
		o.Site("restoreStateLogs: the map feeding addCommitHeights.%s is written by %v", side, got)
		if strings.Join(got, " ; ") != strings.Join(want[side], " ; ") {
			o.FailAt(f.ID+"#add-height-writes-"+side, f.Where(f.Body.Pos()), "the map that restores addCommitHeights.%s is written by %v, expected (loop [key] = height) %v", side, got, want[side])
		}
	}
	// the pending commitment's heights are written first so that the lower
	// height of the acked remote commitment wins for HTLCs on both
	var pend, acked token.Pos
	for _, w := range writes {
		_ = w
	}
	ast.Inspect(f.Body, func(n ast.Node) bool {
		if rs, ok := n.(*ast.RangeStmt); ok {
			switch f.Canon(rs.X) {
			case "$p2.incomingHTLCs":
				pend = rs.Pos()
			case "$p1.incomingHTLCs":
				acked = rs.Pos()
			}
		}
		return true
	})
	if pend == 0 || acked == 0 || pend > acked {
		o.FailAt(f.ID+"#add-height-order", f.Where(f.Body.Pos()), "the incoming HTLCs of the pending remote commitment must be recorded before those of the acked remote commitment (the lower height overwrites)")
	}
}
