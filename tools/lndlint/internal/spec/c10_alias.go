package spec

import (
	"go/ast"
	"go/token"
	"go/types"

	"lndlint/internal/an"
)

// c10LoopScope describes one loop body for the aliasing rule.
type c10LoopScope struct {
	f    *an.Func
	info *types.Info
	body *ast.BlockStmt
}

// outside: obj is declared outside the loop body (so it is the same storage
// in every iteration).
func (s c10LoopScope) outside(obj types.Object) bool {
	return obj != nil && !(obj.Pos() >= s.body.Pos() && obj.Pos() <= s.body.End())
}

// assignedInLoop: the variable as a whole is given a new value inside the
// loop body (`buf = make(...)`, `buf := ...` cannot be: that would declare it
// inside).
func (s c10LoopScope) assignedInLoop(obj types.Object) bool {
	found := false
	ast.Inspect(s.body, func(n ast.Node) bool {
		if as, ok := n.(*ast.AssignStmt); ok {
			for _, l := range as.Lhs {
				if id, ok := ast.Unparen(l).(*ast.Ident); ok && s.info.Uses[id] == obj {
					found = true
				}
			}
		}
		return !found
	})
	return found
}

// filledInLoop: the loop body hands the buffer (or a slice of it) to a call,
// or assigns to its elements: its contents change from one iteration to the
// next.
func (s c10LoopScope) filledInLoop(obj types.Object) bool {
	rooted := func(e ast.Expr) bool {
		for {
			switch x := ast.Unparen(e).(type) {
			case *ast.SliceExpr:
				e = x.X
			case *ast.IndexExpr:
				e = x.X
			case *ast.StarExpr:
				e = x.X
			case *ast.UnaryExpr:
				if x.Op != token.AND {
					return false
				}
				e = x.X
			case *ast.Ident:
				return s.info.Uses[x] == obj
			default:
				return false
			}
		}
	}
	found := false
	ast.Inspect(s.body, func(n ast.Node) bool {
		switch x := n.(type) {
		case *ast.CallExpr:
			if tv, ok := s.info.Types[x.Fun]; ok && tv.IsType() {
				return true // a conversion
			}
			switch an.CalleeID(s.info, x) {
			case "builtin.len", "builtin.cap", "builtin.append":
				return true
			}
			for _, a := range x.Args {
				if rooted(a) {
					found = true
				}
			}
		case *ast.AssignStmt:
			for _, l := range x.Lhs {
				if ix, ok := ast.Unparen(l).(*ast.IndexExpr); ok && rooted(ix.X) {
					found = true
				}
			}
		}
		return !found
	})
	return found
}

// sharedBuffer decides whether the value of e shares its backing array with
// storage that outlives the iteration: a slice of an array (or of a pointer
// to an array, or of a slice) declared outside the loop, a slice variable
// declared outside the loop that the loop fills and never re-allocates, a
// conversion of either, or a local of the loop defined as one of these.  It
// returns the name of the buffer, "" when e is fresh.
func (s c10LoopScope) sharedBuffer(e ast.Expr, depth int) string {
	if depth > 4 || e == nil {
		return ""
	}
	e = ast.Unparen(e)
	switch x := e.(type) {
	case *ast.CallExpr:
		// a conversion keeps the backing array
		if tv, ok := s.info.Types[x.Fun]; ok && tv.IsType() && len(x.Args) == 1 {
			return s.sharedBuffer(x.Args[0], depth+1)
		}
		return ""
	case *ast.SliceExpr:
		base := ast.Unparen(x.X)
		if u, ok := base.(*ast.UnaryExpr); ok && u.Op == token.AND {
			base = ast.Unparen(u.X)
		}
		if st, ok := base.(*ast.StarExpr); ok {
			base = ast.Unparen(st.X)
		}
		id, ok := base.(*ast.Ident)
		if !ok {
			return ""
		}
		obj, _ := s.info.Uses[id].(*types.Var)
		if obj == nil {
			return ""
		}
		switch t := obj.Type().Underlying().(type) {
		case *types.Array:
			if s.outside(obj) {
				return id.Name
			}
		case *types.Pointer:
			if _, isArr := t.Elem().Underlying().(*types.Array); isArr && s.outside(obj) && !s.assignedInLoop(obj) {
				return id.Name
			}
		case *types.Slice:
			return s.sharedBuffer(id, depth+1)
		}
		return ""
	case *ast.Ident:
		obj, _ := s.info.Uses[x].(*types.Var)
		if obj == nil || obj.IsField() {
			return ""
		}
		if _, isSlice := obj.Type().Underlying().(*types.Slice); !isSlice {
			return ""
		}
		if s.outside(obj) {
			if !s.assignedInLoop(obj) && s.filledInLoop(obj) {
				return x.Name
			}
			return ""
		}
		// a local of the loop: follow its definition
		if d := s.f.UniqueDef(x); d != nil {
			return s.sharedBuffer(d, depth+1)
		}
		return ""
	}
	return ""
}

// runC10alias: decoded list elements must not share one read buffer.
func runC10alias(r *an.Run) {
	p := r.Prog
	r.Obl("decoded-elements-do-not-alias", "BOUND",
		"in the wire packages (lnwire and tlv) no loop stores a value that shares its backing array with a buffer declared outside the loop (a slice of an array, of a pointer to an array or of a slice declared outside the loop; a slice variable declared outside the loop that the loop fills and does not re-allocate; a conversion of one of these; a local of the loop defined as one of these) into a value that outlives the iteration (a composite literal field or element, an element appended as such, a field or element assignment), also when the store sits in a function literal inside the loop; passing such a slice to a call (reading into it, hashing it, copying from it with `...`) is fine",
		"every element built that way points at the same bytes: after decoding a list all entries equal the last one, so the decoded message differs from the one sent and does not re-encode to the input", 1,
		func(o *an.Obl) {
			perPkg := map[string]int{}
			flagged := 0
			for _, f := range p.Funcs(false, "lnwire", "tlv") {
				if f.Lit != nil {
					continue // literals are visited with their root function
				}
				info := f.Info()
				pkg := an.Short(f.Pkg.PkgPath)
				visitLoop := func(body *ast.BlockStmt) {
					perPkg[pkg]++
					sc := c10LoopScope{f: f, info: info, body: body}
					retained := func(e ast.Expr, how string) {
						name := sc.sharedBuffer(e, 0)
						if name == "" {
							return
						}
						flagged++
						o.FailAt(f.ID+"#aliased-"+name, f.Where(e.Pos()), "%s keeps %s, which shares the bytes of %s: that buffer is declared outside the loop and overwritten by the next iteration (%s)", f.ID, an.Text(e), name, how)
					}
					ast.Inspect(body, func(n ast.Node) bool {
						switch x := n.(type) {
						case *ast.KeyValueExpr:
							retained(x.Value, "composite literal field "+an.Text(x.Key))
						case *ast.CompositeLit:
							for _, el := range x.Elts {
								if _, isKV := el.(*ast.KeyValueExpr); !isKV {
									retained(el, "composite literal element")
								}
							}
						case *ast.CallExpr:
							if an.CalleeID(info, x) == "builtin.append" && !x.Ellipsis.IsValid() {
								for _, a := range x.Args[1:] {
									retained(a, "appended element")
								}
							}
						case *ast.AssignStmt:
							for i, l := range x.Lhs {
								if i >= len(x.Rhs) {
									break
								}
								switch ast.Unparen(l).(type) {
								case *ast.SelectorExpr, *ast.IndexExpr, *ast.StarExpr:
									retained(x.Rhs[i], "stored into "+an.Text(l))
								}
							}
						}
						return true
					})
				}
				ast.Inspect(f.Body, func(n ast.Node) bool {
					switch x := n.(type) {
					case *ast.ForStmt:
						visitLoop(x.Body)
					case *ast.RangeStmt:
						visitLoop(x.Body)
					}
					return true
				})
			}
			o.Site("loops inspected: lnwire %d, tlv %d; %d retained values sharing a loop-external buffer", perPkg["lnwire"], perPkg["tlv"], flagged)
			if perPkg["lnwire"] < 40 {
				o.FailAt("lnwire#loops", "", "expected at least 40 loops in lnwire, found %d", perPkg["lnwire"])
			}
			if perPkg["tlv"] < 5 {
				o.FailAt("tlv#loops", "", "expected at least 5 loops in tlv, found %d", perPkg["tlv"])
			}
		})
}
