package contractcourt

import (
	"context"
	"errors"
	"sync/atomic"
	"testing"

	"github.com/btcsuite/btcd/chainhash/v2"
	"github.com/btcsuite/btcd/wire/v2"
	"github.com/lightningnetwork/lnd/chainntnfs"
	"github.com/lightningnetwork/lnd/channeldb"
	"github.com/lightningnetwork/lnd/fn/v2"
	"github.com/lightningnetwork/lnd/input"
	"github.com/lightningnetwork/lnd/invoices"
	"github.com/lightningnetwork/lnd/lntypes"
	"github.com/lightningnetwork/lnd/lnwallet"
	"github.com/lightningnetwork/lnd/lnwire"
	"github.com/stretchr/testify/require"
)

// probeArb creates a started arbitrator on the mock log.
func probeArb(t *testing.T) (*chanArbTestCtx, *mockArbitratorLog) {
	arbLog := &mockArbitratorLog{
		state:     StateDefault,
		newStates: make(chan ArbitratorState, 10),
		resolvers: make(map[ContractResolver]struct{}),
	}
	ctx, err := createTestChannelArbitrator(t, arbLog)
	require.NoError(t, err)

	return ctx, arbLog
}

func probeStart(t *testing.T, ctx *chanArbTestCtx) {
	require.NoError(t, ctx.chanArb.Start(nil, newBeatFromHeight(0)))
	t.Cleanup(func() {
		require.NoError(t, ctx.chanArb.Stop())
	})
	ctx.chanArb.UpdateContractSignals(&ContractSignals{
		ShortChanID: lnwire.ShortChannelID{},
	})
}

// PROBE 1: "... and never merely because of a received HTLC it cannot claim".
// A received HTLC that is dust has no output on any commitment, it can't be
// claimed on chain whether or not we know the preimage. The first pass of
// checkCommitChainActions doesn't look at OutputIndex for incoming HTLCs.
func TestProbeReceivedDustWithPreimageForcesClose(t *testing.T) {
	t.Parallel()

	ctx, arbLog := probeArb(t)
	chanArb := ctx.chanArb

	preimage := lntypes.Preimage{1, 2, 3}
	beacon := newMockWitnessBeacon()
	beacon.lookupPreimage[preimage.Hash()] = preimage
	chanArb.cfg.PreimageDB = beacon

	probeStart(t, ctx)

	dustIn := channeldb.HTLC{
		Incoming:      true,
		Amt:           100_000,
		HtlcIndex:     3,
		RefundTimeout: 100,
		OutputIndex:   -1,
		RHash:         preimage.Hash(),
	}
	for _, key := range []HtlcSetKey{LocalHtlcSet, RemoteHtlcSet} {
		chanArb.notifyContractUpdate(&ContractUpdate{
			HtlcKey: key,
			Htlcs:   []channeldb.HTLC{dustIn},
		})
	}

	for h := int32(94); h <= 100; h++ {
		require.NoError(t, chanArb.ProcessBlock(newBeatFromHeight(h)))

		select {
		case s := <-arbLog.newStates:
			t.Fatalf("height %d: arbitrator moved to %v merely "+
				"because of a received dust HTLC (no output "+
				"to claim anywhere)", h, s)
		default:
		}
	}
}

// PROBE 2: "An upstream fail-back is never issued for an offered HTLC that
// still has an output on the confirmed commitment." The dust limits (and the
// second-level fee added to them: timeout fee on our commitment, success fee
// on theirs) of the two commitments differ, so the same HTLC can be trimmed on
// our commitment and have an output on the remote one. When we decide to go to
// chain, StateDefault cancels back everything that is dust on OUR commitment
// before any commitment is confirmed. If the remote commitment confirms
// instead, the HTLC has an output there that the peer can still claim with
// the preimage, and it also gets a resolver.
func TestProbeDustOnLocalOutputOnRemote(t *testing.T) {
	t.Parallel()

	ctx, arbLog := probeArb(t)
	chanArb := ctx.chanArb
	probeStart(t, ctx)

	const htlcIndex = uint64(5)
	onLocal := channeldb.HTLC{
		Incoming:      false,
		Amt:           400_000,
		HtlcIndex:     htlcIndex,
		RefundTimeout: 100,
		OutputIndex:   -1,
	}
	onRemote := onLocal
	onRemote.OutputIndex = 2

	// A second, ordinary HTLC that is the reason to go to chain.
	expiring := channeldb.HTLC{
		Incoming:      false,
		Amt:           10_000_000,
		HtlcIndex:     6,
		RefundTimeout: 50,
		OutputIndex:   3,
	}

	chanArb.notifyContractUpdate(&ContractUpdate{
		HtlcKey: LocalHtlcSet,
		Htlcs:   []channeldb.HTLC{onLocal, expiring},
	})
	chanArb.notifyContractUpdate(&ContractUpdate{
		HtlcKey: RemoteHtlcSet,
		Htlcs:   []channeldb.HTLC{onRemote, expiring},
	})

	// Height 45: cut-off of the expiring HTLC. HTLC 5 still has 55 blocks.
	require.NoError(t, chanArb.ProcessBlock(newBeatFromHeight(45)))
	ctx.AssertStateTransitions(
		StateBroadcastCommit, StateCommitmentBroadcasted,
	)

	failedBack := map[uint64]int{}
	drain := func() {
		for {
			select {
			case msgs := <-ctx.resolutions:
				for _, m := range msgs {
					if m.Failure != nil {
						failedBack[m.HtlcIndex]++
					}
				}
			default:
				return
			}
		}
	}
	drain()

	// The peer's commitment wins the race.
	commitHash := chainhash.Hash{7}
	mkRes := func(idx uint32, expiry uint32) lnwallet.OutgoingHtlcResolution {
		return lnwallet.OutgoingHtlcResolution{
			Expiry: expiry,
			ClaimOutpoint: wire.OutPoint{
				Hash: commitHash, Index: idx,
			},
			SweepSignDesc: input.SignDescriptor{
				Output: &wire.TxOut{},
			},
		}
	}
	//nolint:ll
	chanArb.cfg.ChainEvents.RemoteUnilateralClosure <- &RemoteUnilateralCloseInfo{
		UnilateralCloseSummary: &lnwallet.UnilateralCloseSummary{
			SpendDetail: &chainntnfs.SpendDetail{
				SpenderTxHash:  &commitHash,
				SpendingHeight: 46,
			},
			HtlcResolutions: &lnwallet.HtlcResolutions{
				OutgoingHTLCs: []lnwallet.OutgoingHtlcResolution{
					mkRes(2, 100), mkRes(3, 50),
				},
			},
		},
		CommitSet: CommitSet{
			ConfCommitKey: fn.Some(RemoteHtlcSet),
			HtlcSets: map[HtlcSetKey][]channeldb.HTLC{
				LocalHtlcSet:  {onLocal, expiring},
				RemoteHtlcSet: {onRemote, expiring},
			},
		},
	}
	ctx.AssertStateTransitions(
		StateContractClosed, StateWaitingFullResolution,
	)
	drain()

	// Which HTLC outputs got a resolver?
	arbLog.Lock()
	hasResolver := false
	for r := range arbLog.resolvers {
		hr, ok := r.(htlcContractResolver)
		if !ok {
			continue
		}
		if hr.HtlcPoint().Index == 2 {
			hasResolver = true
		}
	}
	arbLog.Unlock()

	t.Logf("htlc %d: fail-backs=%d, resolver on confirmed remote "+
		"commitment=%v", htlcIndex, failedBack[htlcIndex], hasResolver)

	require.True(t, hasResolver, "HTLC has an output on the confirmed "+
		"commitment, it needs a resolver")
	require.Zero(t, failedBack[htlcIndex], "HTLC with an output on the "+
		"confirmed (remote) commitment was failed back upstream; the "+
		"peer can still claim that output with the preimage")
}

// PROBE 3: deadline clause over histories with a transient publish error. If
// ForceCloseChan / MarkCommitmentBroadcasted / PublishTx return an error in
// StateBroadcastCommit, the state stays StateBroadcastCommit, and
// handleBlockbeat only advances the state machine in StateDefault
// (channel_arbitrator.go, "if c.state == StateDefault"). So the broadcast is
// never attempted again by later blocks, and a user request is refused with
// errAlreadyForceClosed. Only a restart gets out of that.
func TestProbeBroadcastNotRetriedAfterTransientError(t *testing.T) {
	t.Parallel()

	ctx, _ := probeArb(t)
	chanArb := ctx.chanArb

	var publishes atomic.Int32
	chanArb.cfg.PublishTx = func(*wire.MsgTx, string) error {
		if publishes.Add(1) == 1 {
			return errors.New("chain backend: connection refused")
		}

		return nil
	}
	probeStart(t, ctx)

	htlc := channeldb.HTLC{
		Incoming:      false,
		Amt:           10_000_000,
		HtlcIndex:     1,
		RefundTimeout: 100,
		OutputIndex:   1,
	}
	for _, key := range []HtlcSetKey{LocalHtlcSet, RemoteHtlcSet} {
		chanArb.notifyContractUpdate(&ContractUpdate{
			HtlcKey: key,
			Htlcs:   []channeldb.HTLC{htlc},
		})
	}

	// Cut-off block: decision taken, publish fails.
	require.NoError(t, chanArb.ProcessBlock(newBeatFromHeight(95)))
	ctx.AssertStateTransitions(StateBroadcastCommit)
	require.EqualValues(t, 1, publishes.Load())

	// All the blocks up to and beyond the expiry.
	for h := int32(96); h <= 105; h++ {
		require.NoError(t, chanArb.ProcessBlock(newBeatFromHeight(h)))
	}

	// The user can't help either.
	errChan := make(chan error, 1)
	respChan := make(chan *wire.MsgTx, 1)
	chanArb.forceCloseReqs <- &forceCloseReq{
		errResp: errChan,
		closeTx: respChan,
	}
	<-respChan
	t.Logf("user force close request answered with: %v", <-errChan)

	require.Greater(t, publishes.Load(), int32(1), "commitment "+
		"broadcast failed once at the cut-off and was not attempted "+
		"again in the 10 following blocks (HTLC expired at 100)")
}

// canceledInvoiceRegistry knows the hash, but the invoice was canceled.
type canceledInvoiceRegistry struct {
	*mockRegistry

	preimage lntypes.Preimage
}

func (r *canceledInvoiceRegistry) LookupInvoice(context.Context,
	lntypes.Hash) (invoices.Invoice, error) {

	return invoices.Invoice{
		State: invoices.ContractCanceled,
		Terms: invoices.ContractTerm{
			PaymentPreimage: &r.preimage,
			Value:           50_000_000,
		},
	}, nil
}

// PROBE 4: "... never merely because of a received HTLC it cannot claim".
// isPreimageAvailable only looks at invoice.Terms.PaymentPreimage != nil. A
// canceled invoice (or one this HTLC underpays, or an expired one) still has
// its preimage, but the incoming contest resolver asks the registry
// (NotifyExitHopHtlc), gets a fail resolution and gives the HTLC up. The code
// carries a TODO for the related cltv-delta case.
func TestProbeReceivedHtlcForCanceledInvoiceForcesClose(t *testing.T) {
	t.Parallel()

	ctx, arbLog := probeArb(t)
	chanArb := ctx.chanArb

	preimage := lntypes.Preimage{9, 9, 9}
	chanArb.cfg.Registry = &canceledInvoiceRegistry{
		mockRegistry: &mockRegistry{},
		preimage:     preimage,
	}
	probeStart(t, ctx)

	in := channeldb.HTLC{
		Incoming:      true,
		Amt:           10_000_000,
		HtlcIndex:     3,
		RefundTimeout: 100,
		OutputIndex:   1,
		RHash:         preimage.Hash(),
	}
	for _, key := range []HtlcSetKey{LocalHtlcSet, RemoteHtlcSet} {
		chanArb.notifyContractUpdate(&ContractUpdate{
			HtlcKey: key,
			Htlcs:   []channeldb.HTLC{in},
		})
	}

	for h := int32(94); h <= 100; h++ {
		require.NoError(t, chanArb.ProcessBlock(newBeatFromHeight(h)))

		select {
		case s := <-arbLog.newStates:
			t.Fatalf("height %d: arbitrator moved to %v because "+
				"of a received HTLC whose invoice is canceled "+
				"(the registry will refuse to settle it)", h, s)
		default:
		}
	}
}
