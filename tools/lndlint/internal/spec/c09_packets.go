package spec

import (
	"go/ast"
	"sort"
	"strings"

	"lndlint/internal/an"
)

// policyInputs: the switch evaluates the forwarding policy of the outgoing
// link on fields of the packet the incoming link built (Switch.handlePacketAdd
// -> CheckHtlcForward).  Every packet that carries a forwarded add out of the
// link - the first hand-over and the replay after a restart - must fill those
// fields, and from the same sources.
func policyInputs(r *an.Run) {
	p := r.Prog
	r.Obl("forwarded-add-packets-carry-the-policy-inputs", "MIRROR",
		"the packet fields Switch.handlePacketAdd hands to CheckHtlcForward (incomingAmount, amount, incomingTimeout, outgoingTimeout, inboundFee) are set in every htlcPacket literal of channelLink.processRemoteAdds that names an outgoing channel, and the first-time and the replay literal set them from the same sources: the incoming add's amount and expiry, the outgoing add's amount, the forwarding info's outgoing CLTV and the link's own inbound fee, read through the locked accessor channelLink.getInboundFee() (a direct read of cfg.FwrdingPolicy.InboundFee is not accepted: processRemoteAdds does not hold the link lock; what the accessor does: policy-is-read-under-the-link-lock-and-from-one-snapshot); amount is the Amount of the add the packet carries as htlc",
		"a replayed add that arrives at the switch without the inbound fee (or with another amount or expiry) is checked against a different policy than the one that applied when it was first forwarded: an underpaying HTLC is accepted after a restart, or a correct one is rejected", 2,
		func(o *an.Obl) {
			// which packet fields feed CheckHtlcForward
			sw := p.Func("htlcswitch.Switch.handlePacketAdd")
			feeds := map[string]bool{}
			for _, s := range sw.Calls(an.CalleeNamed("CheckHtlcForward"), true) {
				for _, a := range s.Node.(*ast.CallExpr).Args {
					if sel, ok := ast.Unparen(a).(*ast.SelectorExpr); ok && an.Text(sel.X) == "packet" {
						feeds[sel.Sel.Name] = true
					}
				}
			}
			// fields the switch fills in itself are not the link's to set
			for _, g := range p.Funcs(false, "htlcswitch") {
				if !strings.HasPrefix(g.ID, "htlcswitch.Switch.") {
					continue
				}
				ast.Inspect(g.Body, func(n ast.Node) bool {
					if as, ok := n.(*ast.AssignStmt); ok {
						for _, l := range as.Lhs {
							if sel, ok := l.(*ast.SelectorExpr); ok && feeds[sel.Sel.Name] && strings.HasSuffix(an.TypeID(g.Info().TypeOf(sel.X)), "htlcPacket") {
								delete(feeds, sel.Sel.Name)
								o.Site("packet.%s is filled in by %s", sel.Sel.Name, g.ID)
							}
						}
					}
					return true
				})
			}
			var fl []string
			for k := range feeds {
				fl = append(fl, k)
			}
			sort.Strings(fl)
			o.Site("CheckHtlcForward is fed packet.%v", fl)
			if len(fl) < 5 {
				o.FailAt(sw.ID+"#policy-inputs", sw.Where(sw.Body.Pos()), "expected at least 5 packet fields feeding CheckHtlcForward, found %v", fl)
			}
			f := p.Func("htlcswitch.channelLink.processRemoteAdds")
			want := map[string]string{
				"incomingAmount":  `^\$elem\(.*\)\.Amount$|^\*\$elem\(.*\)\.Amount$|\.Amount$`,
				"incomingTimeout": `\.Expiry$`,
				"outgoingTimeout": `\.OutgoingCLTV$`,
				"inboundFee":      `^\$recv\.getInboundFee\(\)$`,
				"amount":          `\.Amount$`,
			}
			var lits []map[string]string
			for _, cl := range p.CompositeLitsOf(p.LookupType("htlcswitch", "htlcPacket")) {
				if cl.Fn == nil || cl.Fn.Root().ID != f.ID {
					continue
				}
				kv := map[string]string{}
				for _, el := range cl.Node.(*ast.CompositeLit).Elts {
					if k, ok := el.(*ast.KeyValueExpr); ok {
						kv[an.Text(k.Key)] = cl.Fn.Canon(k.Value)
					}
				}
				if _, fwd := kv["outgoingChanID"]; !fwd {
					continue
				}
				lits = append(lits, kv)
				o.Site("forwarded-add packet at %s", cl.Where)
				for _, fld := range fl {
					v, ok := kv[fld]
					if !ok {
						o.FailAt(f.ID+"#packet-without-"+fld, cl.Where, "the forwarded-add packet built here does not set %s, which the switch hands to CheckHtlcForward", fld)
						continue
					}
					if re, ok := want[fld]; ok && !reMatch(re, v) {
						o.FailAt(f.ID+"#packet-"+fld+"-source", cl.Where, "the forwarded-add packet sets %s from %s", fld, v)
					}
				}
			}
			if len(lits) != 2 {
				o.FailAt(f.ID+"#forward-packets", f.Where(f.Body.Pos()), "expected the first-time and the replay packet literal, found %d", len(lits))
				return
			}
			for _, fld := range fl {
				a, b := lits[0][fld], lits[1][fld]
				// the outgoing add is called outgoingAdd in the replay branch and addMsg in the first-time branch
				norm := func(s string) string { return strings.NewReplacer("outgoingAdd", "ADD", "addMsg", "ADD").Replace(s) }
				if fld != "amount" && norm(a) != norm(b) {
					o.FailAt(f.ID+"#packets-disagree-on-"+fld, f.Where(f.Body.Pos()), "the replay packet sets %s from %s, the first-time packet from %s", fld, a, b)
				}
			}
		})
}
