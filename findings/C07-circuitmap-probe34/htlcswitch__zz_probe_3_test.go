package htlcswitch_test

import (
	"testing"

	"github.com/lightningnetwork/lnd/htlcswitch"
	"github.com/lightningnetwork/lnd/kvdb"
	"github.com/lightningnetwork/lnd/lnwire"
	"github.com/stretchr/testify/require"
)

// TestProbeTrimAfterClosedChannelPurge drives the gap through the real
// start-up path: two keystones (chan2,5) and (chan2,6) were written but never
// signed for. The incoming channel of the first circuit is fully closed, so
// NewCircuitMap.cleanClosedChannels purges that circuit and its keystone. The
// trim of chan2 at its next local htlc index (5), as done by the link on
// start (link.go: TrimOpenCircuits(chanID, localHtlcIndex)), must still roll
// back (chan2,6).
func TestProbeTrimAfterClosedChannelPurge(t *testing.T) {
	t.Parallel()

	chan1 := lnwire.NewShortChanIDFromInt(1)
	chan2 := lnwire.NewShortChanIDFromInt(2)
	chan3 := lnwire.NewShortChanIDFromInt(3)

	cfg, cm := newCircuitMap(t, false)

	a := probeCircuit(chan1, 1, hash1)
	b := probeCircuit(chan3, 1, hash2)
	_, err := cm.CommitCircuits(a, b)
	require.NoError(t, err)

	out5 := htlcswitch.CircuitKey{ChanID: chan2, HtlcID: 5}
	out6 := htlcswitch.CircuitKey{ChanID: chan2, HtlcID: 6}
	require.NoError(t, cm.OpenCircuits(
		htlcswitch.Keystone{InKey: a.Incoming, OutKey: out5},
		htlcswitch.Keystone{InKey: b.Incoming, OutKey: out6},
	))

	// chan1 is fully closed.
	err = kvdb.Update(cfg.DB, func(tx kvdb.RwTx) error {
		return createTestCloseChannelSummery(tx, false, chan1)
	}, func() {})
	require.NoError(t, err)

	cfg, cm = restartCircuitMap(t, cfg)
	require.Nil(t, cm.LookupCircuit(a.Incoming))
	require.Nil(t, cm.LookupOpenCircuit(out5))

	// The link of chan2 starts: nothing at or above 5 was committed.
	require.NoError(t, cm.TrimOpenCircuits(chan2, 5))

	cb := cm.LookupCircuit(b.Incoming)
	require.NotNil(t, cb)
	require.False(t, cb.HasKeystone(), "circuit %v keeps uncommitted "+
		"keystone above the trim point", cb.Incoming)
	require.Nil(t, cm.LookupOpenCircuit(out6))

	// The re-forward of b after the restart is failed back, not dropped.
	actions, err := cm.CommitCircuits(b)
	require.NoError(t, err)
	require.Len(t, actions.Fails, 1)
	require.Empty(t, actions.Drops)

	// The trim is durable.
	_, cm = restartCircuitMap(t, cfg)
	require.Nil(t, cm.LookupOpenCircuit(out6))
	require.Equal(t, 0, cm.NumOpen())
	require.Equal(t, 1, cm.NumPending())
}
