package spec

import (
	"go/ast"
	"go/token"
	"go/types"
	"strings"

	"lndlint/internal/an"
	"lndlint/internal/flow"
)

func init() {
	specExtras["C01"] = append(specExtras["C01"], c01f5Rules)
}

// c01f5Rules: the repair d1709e7 (a fee rate the node accepts from its own
// caller is one it can sign) and two seeded changes the earlier rules missed:
// the fallback fee rate of a view comes from the chain that is extended, and
// the no-op classification of an add exists on tapscript-root channels only.
func c01f5Rules(r *an.Run) {
	p := r.Prog

	r.Obl("accepted-local-fee-rate-is-signable", "GUARD",
		"validateCommitmentSanity hands out success only where the fee rate of the evaluated view (computeView(..).FeePerKw) was compared >= one floor constant; every function of lnwallet that appends a fee update to the LOCAL update log builds the entry's Amount from one of its parameters and appends only where that parameter was compared >= that same floor constant (no further condition joined to the test)",
		"a fee update is evaluated by every later commitment of both sides; a rate the sanity check refuses makes the node's own AddHTLC and SignNextCommitment fail until the entry is replaced, and a commitment signed anyway is one the peer's identical check rejects", 5,
		func(o *an.Obl) {
			v := p.Func(lw + "LightningChannel.validateCommitmentSanity")
			viewRate := canonTerm(`^\$recv\.computeView\(.*\)#3\.FeePerKw$`)
			floors := map[string]bool{}
			for _, vx := range v.Graph().V {
				if vx.Kind != flow.KCond {
					continue
				}
				be, ok := ast.Unparen(vx.Node.(ast.Expr)).(*ast.BinaryExpr)
				if !ok {
					continue
				}
				switch {
				case (be.Op == token.LSS || be.Op == token.LEQ || be.Op == token.GEQ || be.Op == token.GTR) && viewRate(v, be.X):
					floors[v.Canon(be.Y)] = true
				case (be.Op == token.LSS || be.Op == token.LEQ || be.Op == token.GEQ || be.Op == token.GTR) && viewRate(v, be.Y):
					floors[v.Canon(be.X)] = true
				}
			}
			fl := keys(floors)
			o.Site("validateCommitmentSanity compares the view's fee rate with %v", fl)
			if len(fl) != 1 {
				o.FailAt(v.ID+"#fee-floor", v.Where(v.Body.Pos()), "validateCommitmentSanity compares the fee rate of the evaluated view with %v, expected exactly one floor", fl)
				return
			}
			floor := canonTerm("^" + regexpQuote(fl[0]) + "$")
			for _, s := range v.SuccessReturns() {
				guarded(o, v, s, an.Cmp(viewRate, an.GE, floor, "view fee rate >= "+fl[0]))
			}
			n := 0
			for _, f := range p.Funcs(false, "lnwallet") {
				for _, s := range f.Calls(an.CalleeIs(lw+"updateLog.appendFeeUpdate"), false) {
					recv := f.Canon(s.Node.(*ast.CallExpr).Fun)
					if !strings.HasSuffix(recv, "updateLogs.Local.appendFeeUpdate") {
						if !strings.HasSuffix(recv, "updateLogs.Remote.appendFeeUpdate") {
							o.FailAt(f.ID+"#fee-update-log", s.Where(), "%s appends a fee update through %s: neither the local nor the remote update log", f.ID, recv)
						}
						continue
					}
					n++
					// the entry: one paymentDescriptor literal whose Amount is
					// NewMSatFromSatoshis(Amount(<parameter>))
					lits := c01LitsOfType(f, lw+"paymentDescriptor")
					if len(lits) != 1 {
						o.FailAt(f.ID+"#fee-entry", s.Where(), "%s: expected one paymentDescriptor literal for the appended fee update, found %d", f.ID, len(lits))
						continue
					}
					amt := c01LitFields(f, lits[0])["Amount"]
					m := c02FindSub(`^lnwire\.NewMSatFromSatoshis\((?:\S*/)?btcutil(?:/v2)?\.Amount\(\$p(\d+)\)\)$`, amt)
					o.Site("%s appends a local fee update of %s", f.ID, amt)
					if m == "" {
						o.FailAt(f.ID+"#fee-entry-rate", s.Where(), "%s: the appended fee update carries %s, expected NewMSatFromSatoshis(Amount(<rate parameter>))", f.ID, amt)
						continue
					}
					if a := f.ArgCanon(s); len(a) != 1 || !strings.Contains(a[0], amt) {
						o.FailAt(f.ID+"#fee-entry-appended", s.Where(), "%s appends %v, expected the descriptor built from the tested rate", f.ID, a)
					}
					idx := 0
					for _, ch := range m {
						idx = idx*10 + int(ch-'0')
					}
					c02ParamsStable(o, f)
					guarded(o, f, s, an.Cmp(an.Param(idx), an.GE, floor, "rate parameter >= "+fl[0]))
				}
			}
			if n == 0 {
				o.FailAt("lnwallet#local-fee-updates", "", "no function appends a fee update to the local update log")
			}
		})

	r.Obl("view-reads-only-the-chain-being-extended", "ROLE",
		"computeView mentions commitChains.Local / commitChains.Remote only in the two assignments that select its chain variable by whoseCommitChain (Local for Local, Remote for Remote); every tip() / tail() it calls is called on that variable; the fallback fee rate and the height of the view ($p0.FeePerKw, $p0.NextHeight) are assigned exactly once each, from <chain>.tip().feePerKw and <chain>.tip().height + 1, before the single evaluateHTLCView call, which receives that view, whoseCommitChain and the same next height",
		"a new commitment continues the tip of its own chain: its balances, previous fee, height and (when the window holds no update_fee) its fee rate are that tip's; a value taken from the other party's chain differs whenever one side has signed or revoked ahead of the other, and the signer then builds a transaction the verifier does not", 8,
		func(o *an.Obl) {
			f := p.Func(lw + "LightningChannel.computeView")
			c02ParamsStable(o, f)
			info := f.Info()
			// the chain variable: the local assigned from commitChains.<Side>
			var chain types.Object
			selecting := map[ast.Expr]bool{}
			sideRe := `^\$recv\.commitChains\.(Local|Remote)$`
			ast.Inspect(f.Body, func(n ast.Node) bool {
				as, ok := n.(*ast.AssignStmt)
				if !ok || len(as.Lhs) != len(as.Rhs) {
					return true
				}
				for i, rhs := range as.Rhs {
					if !reMatch(sideRe, f.Canon(rhs)) {
						continue
					}
					if _, isSel := ast.Unparen(rhs).(*ast.SelectorExpr); !isSel {
						continue
					}
					obj := c01ObjOf(f, as.Lhs[i])
					if v, isVar := obj.(*types.Var); !isVar || v.IsField() || (chain != nil && obj != chain) {
						o.FailAt(f.ID+"#chain-variable", f.Where(as.Pos()), "computeView binds a commitment chain in %s; expected one local variable selected by whoseCommitChain", an.Text(as))
						continue
					}
					chain = obj
					selecting[ast.Unparen(rhs)] = true
				}
				return true
			})
			if chain == nil || len(selecting) != 2 {
				o.FailAt(f.ID+"#chain-selection", f.Where(f.Body.Pos()), "computeView: expected the idiom `chain := commitChains.Local; if whoseCommitChain.IsRemote() { chain = commitChains.Remote }` (found %d selecting assignments)", len(selecting))
				return
			}
			o.Site("computeView selects %s from commitChains by whoseCommitChain", chain.Name())
			// no other mention of a party's chain
			ast.Inspect(f.Body, func(n ast.Node) bool {
				sel, ok := n.(*ast.SelectorExpr)
				if !ok {
					return true
				}
				if sel.Sel.Name == "commitChains" {
					// reached only when not part of a selecting assignment
					o.FailAt(f.ID+"#reads-a-fixed-chain", f.Where(sel.Pos()), "computeView reads %s outside the selection of its chain variable", an.Text(sel))
					return false
				}
				if selecting[sel] {
					return false
				}
				return true
			})
			isChain := func(e ast.Expr) bool { return c01ObjOf(f, e) == chain }
			nTip := 0
			for _, s := range f.Calls(an.CalleeIs(lw+"commitmentChain.tip", lw+"commitmentChain.tail"), true) {
				sel, _ := s.Node.(*ast.CallExpr).Fun.(*ast.SelectorExpr)
				nTip++
				if sel == nil || !isChain(sel.X) {
					o.FailAt(f.ID+"#foreign-tip", s.Where(), "computeView calls %s, not on the chain selected by whoseCommitChain", s.String())
				}
			}
			o.Site("computeView: %d tip()/tail() reads, all on %s", nTip, chain.Name())
			// the two defaults of the view
			tipField := func(e ast.Expr, field string) bool {
				sel, ok := ast.Unparen(e).(*ast.SelectorExpr)
				if !ok || sel.Sel.Name != field {
					return false
				}
				c, ok := ast.Unparen(sel.X).(*ast.CallExpr)
				if !ok || an.CalleeID(info, c) != lw+"commitmentChain.tip" {
					return false
				}
				fs, ok := c.Fun.(*ast.SelectorExpr)
				return ok && isChain(fs.X)
			}
			ev := f.Calls(an.CalleeIs(lw+"LightningChannel.evaluateHTLCView"), true)
			if !needExactly(o, f, "evaluateHTLCView", ev, 1) {
				return
			}
			var heightObj types.Object
			for _, fld := range []string{"FeePerKw", "NextHeight"} {
				ws := f.Assigns(an.FieldPath(an.Param(0), fld), true)
				if !needExactly(o, f, "assignment of view."+fld, ws, 1) {
					continue
				}
				as, ok := ws[0].Node.(*ast.AssignStmt)
				if !ok || len(as.Lhs) != 1 || len(as.Rhs) != 1 || as.Tok != token.ASSIGN {
					o.FailAt(f.ID+"#view-default-"+fld, ws[0].Where(), "unexpected form of %s", ws[0].String())
					continue
				}
				before(o, f, "view."+fld+" = …", ws, "evaluateHTLCView", ev)
				rhs := ast.Unparen(as.Rhs[0])
				switch fld {
				case "FeePerKw":
					if !tipField(rhs, "feePerKw") {
						o.FailAt(f.ID+"#fallback-fee-rate", ws[0].Where(), "the fallback fee rate of the view is %s, expected %s.tip().feePerKw (the rate of the commitment this view extends)", an.Text(rhs), chain.Name())
					}
				case "NextHeight":
					// a local defined once as <chain>.tip().height + 1
					id, _ := rhs.(*ast.Ident)
					var def ast.Expr
					if id != nil {
						def = f.UniqueDef(id)
						heightObj = info.Uses[id]
					}
					be, _ := ast.Unparen(def).(*ast.BinaryExpr)
					if def == nil || be == nil || be.Op != token.ADD || !tipField(be.X, "height") || !an.IntConst(1)(f, ast.Unparen(be.Y)) {
						o.FailAt(f.ID+"#next-height", ws[0].Where(), "the height of the view is %s, expected a local defined once as %s.tip().height + 1", an.Text(rhs), chain.Name())
					}
				}
			}
			args := ev[0].Node.(*ast.CallExpr).Args
			c02ArgsAre(o, f, ev[0], "evaluateHTLCView", map[int]string{0: `^\$p0$`, 1: `^\$p1$`})
			if len(args) != 3 || heightObj == nil || c01ObjOf(f, args[2]) != heightObj {
				o.FailAt(f.ID+"#evaluated-height", ev[0].Where(), "evaluateHTLCView is not given the height stored in the view (%s)", ev[0].String())
			}
		})

	r.Obl("noop-add-only-with-tapscript-root", "GUARD",
		"in non-test lnwallet the constant NoOpAdd is used as a value (not as a case label or comparison operand) only by returns of LightningChannel.entryTypeForHtlc; each such return lies below HasTapscriptRoot() of the channel-type parameter and below the presence test of the no-op record (key uint64(NoOpHtlcTLVEntry.TypeVal())) in the records parameter; every caller passes the channel's own channelState.ChanType",
		"settling a no-op add credits the amount back to the sender (evaluateNoOpHtlc): on a channel without a tapscript root, where no auxiliary layer moves the value, the receiver releases the preimage and its balance does not move by the HTLC amount", 8,
		func(o *an.Obl) {
			f := p.Func(lw + "LightningChannel.entryTypeForHtlc")
			c02ParamsStable(o, f)
			noop, _ := p.LookupObj("lnwallet", "NoOpAdd").(*types.Const)
			if noop == nil {
				o.FailAt("lnwallet.NoOpAdd#anchor", "", "constant lnwallet.NoOpAdd not found")
				return
			}
			// value uses of the constant
			for _, fn := range p.Funcs(false, "lnwallet") {
				if fn.Lit != nil {
					continue
				}
				var stack []ast.Node
				ast.Inspect(fn.Body, func(n ast.Node) bool {
					if n == nil {
						stack = stack[:len(stack)-1]
						return true
					}
					stack = append(stack, n)
					id, ok := n.(*ast.Ident)
					if !ok || fn.Info().Uses[id] != noop {
						return true
					}
					var parent ast.Node
					for i := len(stack) - 2; i >= 0; i-- {
						if _, isParen := stack[i].(*ast.ParenExpr); !isParen {
							parent = stack[i]
							break
						}
					}
					switch x := parent.(type) {
					case *ast.CaseClause:
						return true
					case *ast.BinaryExpr:
						if x.Op == token.EQL || x.Op == token.NEQ {
							return true
						}
					case *ast.ReturnStmt:
						if fn == f {
							return true
						}
					}
					o.FailAt(fn.ID+"#constructs-noop-add", fn.Where(id.Pos()), "%s uses NoOpAdd as a value (%s); only entryTypeForHtlc classifies an add as a no-op", fn.ID, an.Text(parent))
					return true
				})
			}
			recKey := `uint64\(lnwallet\.NoOpHtlcTLVEntry\.TypeVal\(\)\)`
			present := an.Truth(func(fn *an.Func, e ast.Expr) bool {
				id, ok := ast.Unparen(e).(*ast.Ident)
				if !ok {
					return false
				}
				obj := fn.Info().Uses[id]
				// `_, flag := records[key]`
				found := false
				ast.Inspect(fn.Body, func(n ast.Node) bool {
					as, ok := n.(*ast.AssignStmt)
					if !ok || len(as.Lhs) != 2 || len(as.Rhs) != 1 {
						return true
					}
					l, ok := as.Lhs[1].(*ast.Ident)
					if !ok || (fn.Info().Defs[l] != obj && fn.Info().Uses[l] != obj) {
						return true
					}
					ix, ok := ast.Unparen(as.Rhs[0]).(*ast.IndexExpr)
					if ok && fn.Canon(ix.X) == "$p0" && reMatch("^"+recKey+"$", fn.Canon(ix.Index)) {
						found = true
					}
					return true
				})
				if !found {
					return false
				}
				// and nothing else defines the flag
				return len(fn.Assigns(c01ObjTerm(obj), true)) == 1
			}, true, "the no-op record is present in the HTLC's custom records")
			root := an.Truth(an.CallNamed("HasTapscriptRoot", an.Param(1)), true, "chanType.HasTapscriptRoot()")
			n := 0
			for _, s := range f.Returns() {
				rs := s.Node.(*ast.ReturnStmt)
				if len(rs.Results) != 1 {
					continue
				}
				id, ok := ast.Unparen(rs.Results[0]).(*ast.Ident)
				if ok && f.Info().Uses[id] == noop {
					n++
					guarded(o, f, s, root)
					guarded(o, f, s, present)
					continue
				}
				if c, isConst := f.Info().Uses[id].(*types.Const); !ok || !isConst || c.Name() != "Add" {
					o.FailAt(f.ID+"#classification", s.Where(), "entryTypeForHtlc returns %s; expected the constants Add or NoOpAdd", an.Text(rs))
				}
			}
			if n == 0 {
				o.FailAt(f.ID+"#no-noop-return", f.Where(f.Body.Pos()), "entryTypeForHtlc never returns NoOpAdd")
			}
			calls := 0
			for _, fn := range p.Funcs(false, "lnwallet") {
				for _, s := range fn.Calls(an.CalleeIs(f.ID), false) {
					calls++
					c02ArgsAre(o, fn, s, "entryTypeForHtlc", map[int]string{1: `^\$recv\.channelState\.ChanType$`})
				}
			}
			if calls < 5 {
				o.FailAt(f.ID+"#callers", "", "expected at least 5 call sites of entryTypeForHtlc (send, receive, three restore paths), found %d", calls)
			}
		})
}
