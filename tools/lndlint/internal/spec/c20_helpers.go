package spec

import (
	"go/ast"
	"go/types"
	"strings"

	"lndlint/internal/an"
)

// c20ResultOf: the local called name of fn is one variable whose only
// definition binds result idx of the call at site (`a, b, err := call(...)`):
// neither a destructuring in another order, nor a later overwrite, nor a
// shadowing variable of the same name can stand between the call that was
// checked and the uses that are checked by name. It returns the variable.
func c20ResultOf(o *an.Obl, fn *an.Func, name string, call an.Site, idx int) types.Object {
	objs, defs := c19LocalDefs(fn, name)
	if len(objs) == 0 {
		o.FailAt(fn.ID+"#no-"+name, fn.Where(fn.Body.Pos()), "cannot find the local %s in %s", name, fn.ID)
		return nil
	}
	if len(objs) > 1 {
		o.FailAt(fn.ID+"#shadowed-"+name, fn.Where(objs[1].Pos()), "%s declares %d variables called %s", fn.ID, len(objs), name)
	}
	n := 0
	for _, d := range defs {
		if d.Tok == "zero" {
			continue
		}
		n++
		ok := false
		switch x := d.Node.(type) {
		case *ast.AssignStmt:
			if len(x.Rhs) == 1 && ast.Unparen(x.Rhs[0]) == call.Node && idx < len(x.Lhs) && c19VarObj(fn, x.Lhs[idx]) == d.Obj && (x.Tok.String() == "=" || x.Tok.String() == ":=") {
				ok = true
			}
		case *ast.ValueSpec:
			if len(x.Values) == 1 && ast.Unparen(x.Values[0]) == call.Node && idx < len(x.Names) && x.Names[idx].Name == name {
				ok = true
			}
		}
		o.Site("%s: %s is result %d of %s", fn.ID, name, idx, an.Text(call.Node))
		if !ok {
			o.FailAt(fn.ID+"#result-order-"+name, fn.Where(d.Node.Pos()), "%s must be (only) result %d of %s; found %s", name, idx, an.Text(call.Node.(*ast.CallExpr).Fun), an.Text(d.Node))
		}
	}
	if n == 0 {
		o.FailAt(fn.ID+"#unbound-"+name, call.Where(), "%s is never bound to result %d of %s", name, idx, an.Text(call.Node.(*ast.CallExpr).Fun))
	}
	return objs[0]
}

// c20SingleDef: the local called name of fn is one variable with exactly one
// definition, whose canonical form is want.
func c20SingleDef(o *an.Obl, fn *an.Func, name, want string) types.Object {
	objs, defs := c19LocalDefs(fn, name)
	if len(objs) == 0 {
		o.FailAt(fn.ID+"#no-"+name, fn.Where(fn.Body.Pos()), "cannot find the local %s in %s", name, fn.ID)
		return nil
	}
	if len(objs) > 1 {
		o.FailAt(fn.ID+"#shadowed-"+name, fn.Where(objs[1].Pos()), "%s declares %d variables called %s", fn.ID, len(objs), name)
	}
	n := 0
	for _, d := range defs {
		if d.Tok == "zero" {
			continue
		}
		n++
		got := "<" + d.Tok + ">"
		if d.Rhs != nil && (d.Tok == "=" || d.Tok == ":=" || d.Tok == "var") {
			got = d.Fn.Canon(d.Rhs)
		}
		o.Site("%s: %s = %s", fn.ID, name, got)
		if got != want {
			o.FailAt(fn.ID+"#def-"+name, fn.Where(d.Node.Pos()), "%s is %s (%s), expected %s", name, an.Text(d.Node), got, want)
		}
	}
	if n != 1 {
		o.FailAt(fn.ID+"#defs-"+name, fn.Where(fn.Body.Pos()), "%s is defined %d times in %s, expected once", name, n, fn.ID)
	}
	return objs[0]
}

// c20RelayReturns: what a gossip handler hands on for relay is either nil or
// one of the named result variables; the variable `announcements` is only
// ever extended by a networkMsg whose msg is the message being handled
// (msgCanon) - a literal built at the return statement, or any other slice,
// by-passes every rule on the accepting path. It returns the relaying
// returns.
func c20RelayReturns(o *an.Obl, f *an.Func, msgCanon string, others ...string) []an.Site {
	allowed := map[string]bool{"announcements": true}
	for _, n := range others {
		allowed[n] = true
	}
	var out []an.Site
	for _, s := range f.Returns() {
		rs := s.Node.(*ast.ReturnStmt)
		if len(rs.Results) == 0 || an.IsNilIdent(f.Info(), rs.Results[0]) {
			continue
		}
		out = append(out, s)
		o.Site("relay exit %s", s.String())
		id, ok := ast.Unparen(rs.Results[0]).(*ast.Ident)
		if !ok || !allowed[id.Name] {
			o.FailAt(f.ID+"#relays-other-value", s.Where(), "%s hands on %s for relay; expected nil or one of the result lists built on the accepting path", f.ID, an.Text(rs.Results[0]))
		}
	}
	objs, defs := c19LocalDefs(f, "announcements")
	if len(objs) > 1 {
		o.FailAt(f.ID+"#shadowed-announcements", f.Where(objs[1].Pos()), "%s declares %d variables called announcements", f.ID, len(objs))
	}
	for _, d := range defs {
		if d.Tok == "zero" {
			continue
		}
		c, _ := d.Rhs.(*ast.CallExpr)
		ok := d.Tok == "=" && c != nil && isAppend(f, c) && len(c.Args) == 2 && !c.Ellipsis.IsValid() && c19VarObj(f, c.Args[0]) == d.Obj
		if ok {
			lit := c19AsLit(c.Args[1])
			ok = lit != nil && d.Fn.Canon(c20KvValue(lit, "msg")) == msgCanon
		}
		if !ok {
			o.FailAt(f.ID+"#relay-list", f.Where(d.Node.Pos()), "the relay list is changed by %s; expected only `announcements = append(announcements, networkMsg{…, msg: <the handled message>})`", an.Text(d.Node))
		}
	}
	return out
}

// c20KvValue returns the value expression of the key in a composite literal.
func c20KvValue(lit *ast.CompositeLit, key string) ast.Expr {
	for _, el := range lit.Elts {
		if kv, ok := el.(*ast.KeyValueExpr); ok && an.Text(kv.Key) == key {
			return kv.Value
		}
	}
	return nil
}

// c20OnlyFieldWrites: fields of the variable obj are written in fn only if
// listed; it returns the writes per field.
func c20OnlyFieldWrites(o *an.Obl, fn *an.Func, obj types.Object, what string, allowed ...string) map[string][]ast.Node {
	ok := map[string]bool{}
	for _, a := range allowed {
		ok[a] = true
	}
	ws := c19FieldWrites(fn, obj)
	for fld, nodes := range ws {
		if !ok[fld] {
			o.FailAt(fn.ID+"#"+what+"-field-"+fld, fn.Where(nodes[0].Pos()), "%s rewrites %s.%s (%s); only %s may be set here", fn.ID, what, fld, an.Text(nodes[0]), strings.Join(allowed, ", "))
		}
	}
	return ws
}

// c20KeyByDirection: the signer key `pubKey` of fn is one variable and every
// value it ever receives is <ch>.NodeKey1() below the node-1 direction fact or
// <ch>.NodeKey2() below the node-2 direction fact, once each: an assignment
// outside the two direction cases (a further case, an overwrite after the
// switch) replaces the key the direction selected. It returns the variable.
func c20KeyByDirection(o *an.Obl, fn *an.Func, ch string, dirFact func(node1 bool) an.Fact) types.Object {
	objs, defs := c19LocalDefs(fn, "pubKey")
	if len(objs) == 0 {
		o.FailAt(fn.ID+"#no-pubKey", fn.Where(fn.Body.Pos()), "cannot find the signer key in %s", fn.ID)
		return nil
	}
	if len(objs) > 1 {
		o.FailAt(fn.ID+"#shadowed-pubKey", fn.Where(objs[1].Pos()), "%s declares %d variables called pubKey", fn.ID, len(objs))
	}
	n := map[bool]int{}
	for _, d := range defs {
		if d.Tok == "zero" {
			continue
		}
		as, ok := d.Node.(*ast.AssignStmt)
		if !ok || len(as.Rhs) != 1 || d.Tok != "=" {
			o.FailAt(fn.ID+"#key-for-direction", fn.Where(d.Node.Pos()), "the signer key is changed by %s", an.Text(d.Node))
			continue
		}
		c := an.Text(as.Rhs[0])
		s := d.site()
		classified := false
		for _, node1 := range []bool{true, false} {
			if ok, _ := d.Fn.Guarded(s, dirFact(node1)); !ok {
				continue
			}
			classified = true
			n[node1]++
			want := ch + ".NodeKey2()"
			if node1 {
				want = ch + ".NodeKey1()"
			}
			o.Site("%s: node1=%v -> %s", fn.ID, node1, c)
			if c != want {
				o.FailAt(fn.ID+"#key-for-direction", s.Where(), "an update of direction node1=%v is checked against %s, expected %s", node1, c, want)
			}
		}
		if !classified {
			o.FailAt(fn.ID+"#key-outside-direction", s.Where(), "%s sets the signer key outside the two direction cases", an.Text(d.Node))
		}
	}
	if n[true] != 1 || n[false] != 1 {
		o.FailAt(fn.ID+"#direction-keys", fn.Where(fn.Body.Pos()), "%s selects the signer key at %d node-1 and %d node-2 direction cases, expected one each", fn.ID, n[true], n[false])
	}
	return objs[0]
}

// c20ValidatorChain: the exported validator fn (a field check followed by a
// signature check) can answer nil only after both checks succeeded, each of
// them applied to the validator's own arguments (fieldArgs / sigArgs are the
// canonical argument lists, $pN = the validator's N-th parameter), which are
// never overwritten: callers that are checked for "passes fn" rely on fn
// handing exactly what it was given to both steps.
func c20ValidatorChain(o *an.Obl, p *an.Prog, fn, fields, sig string, fieldArgs, sigArgs []string) {
	g := p.Func(fn)
	a, b := g.Calls(an.CalleeIs(fields), true), g.Calls(an.CalleeIs(sig), true)
	if !needExactly(o, g, fields, a, 1) || !needExactly(o, g, sig, b, 1) {
		return
	}
	for _, row := range []struct {
		s    an.Site
		want []string
		what string
	}{{a[0], fieldArgs, "field check"}, {b[0], sigArgs, "signature check"}} {
		if row.s.Fn != g {
			o.FailAt(g.ID+"#deferred-"+row.what, row.s.Where(), "the %s of %s runs inside a function literal", row.what, fn)
			continue
		}
		got := g.ArgCanon(row.s)
		o.Site("%s: %s%v", fn, an.Text(row.s.Node.(*ast.CallExpr).Fun), got)
		if strings.Join(got, ", ") != strings.Join(row.want, ", ") {
			o.FailAt(g.ID+"#"+strings.ReplaceAll(row.what, " ", "-")+"-args", row.s.Where(), "the %s of %s is applied to (%s), expected the validator's own arguments (%s)", row.what, fn, strings.Join(got, ", "), strings.Join(row.want, ", "))
		}
	}
	var names []string
	for _, v := range g.Params(false) {
		names = append(names, v.Name())
	}
	notReassigned(o, g, names...)
	for _, s := range g.SuccessReturns() {
		if s.V == b[0].V {
			// `return <signature check>(…)`: its verdict is the answer
			mustPass(o, g, fields, a, an.OkErrNil, []an.Site{s})
			continue
		}
		if g.ClassifyReturn(s) == an.RetSuccess {
			if skip := g.Graph().Reach(g.Graph().Entry, nil, map[*an.FlowVertex]bool{b[0].V: true}); skip[s.V] {
				o.FailAt(g.ID+"#success-without-signature", s.Where(), "%s succeeds without the signature check", fn)
				continue
			}
		}
		mustPass(o, g, fields, a, an.OkErrNil, []an.Site{s})
		mustPass(o, g, sig, b, an.OkErrNil, []an.Site{s})
	}
}
