package spec

import (
	"go/ast"
	"regexp"
	"strings"

	"lndlint/internal/an"
	"lndlint/internal/flow"
)

// windowDiscipline: log indexes are compared against commitment bounds with
// exclusive upper bounds everywhere: idx < bound means covered, idx >= bound
// means not yet covered. Shared by C01, C02 and C03.
func windowDiscipline(r *an.Run) {
	p := r.Prog
	r.Obl("log-index-window-discipline", "GUARD",
		"every comparison of an update's LogIndex against a commitment bound in lnwallet and channeldb uses `<` or `>=` (never `<=` or `>`), and the selection sites that decide which updates are covered by a commitment, persisted as unsigned, or restored as already applied are guarded by exactly the documented bound: fetchHTLCView (< index), getUnsignedAckedUpdates (>= signed, < acked), restorePendingRemoteUpdates (< pending commit's remote index; < remote log index), UpdateChannelCommitment (>= LocalLogIndex kept), AdvanceCommitChainTail (>= RemoteLogIndex kept)",
		"the bound is exclusive on every side of the protocol; one site using an inclusive bound counts one update twice or drops it, which desynchronises the two peers only when an update index coincides with the bound (crossing signatures plus a restart)", 20,
		func(o *an.Obl) {
			re := regexp.MustCompile(`\.LogIndex (<=|>=|<|>|==|!=) |(<=|>=|<|>|==|!=) [^ ]*\.LogIndex\)$`)
			n := 0
			for _, f := range p.Funcs(false, "lnwallet", "channeldb") {
				for _, v := range f.Graph().V {
					if v.Kind != flow.KCond {
						continue
					}
					be, ok := ast.Unparen(v.Node.(ast.Expr)).(*ast.BinaryExpr)
					if !ok {
						continue
					}
					c := f.AtomCanon(v)
					if !re.MatchString(c) {
						continue
					}
					l, rr := f.Canon(be.X), f.Canon(be.Y)
					if !strings.HasSuffix(l, ".LogIndex") && !strings.HasSuffix(rr, ".LogIndex") {
						continue
					}
					n++
					op := be.Op.String()
					if strings.HasSuffix(rr, ".LogIndex") && !strings.HasSuffix(l, ".LogIndex") {
						// bound OP idx  ==  idx OP' bound
						op = map[string]string{"<": ">", ">": "<", "<=": ">=", ">=": "<=", "==": "==", "!=": "!="}[op]
					}
					o.Site("%s %s: LogIndex %s bound", f.ID, f.Where(v.Pos()), op)
					if op == "<=" || op == ">" {
						o.FailAt(f.ID+"#logindex-"+op, f.Where(v.Pos()), "%s compares a log index with `%s` against a bound; every bound in the protocol is exclusive (`<` covered, `>=` not covered): %s", f.ID, op, an.Text(v.Node))
					}
				}
			}
			if n < 10 {
				o.FailAt("window#sites", "", "expected at least 10 log-index comparisons, found %d", n)
			}
			idx := an.FieldPath(nil, "LogIndex")
			type site struct {
				fn    string
				sites func(f *an.Func) []an.Site
				facts []an.Fact
			}
			appendTo := func(name string) func(f *an.Func) []an.Site {
				return func(f *an.Func) []an.Site {
					var out []an.Site
					for _, s := range f.Assigns(an.LocalNamed(name), false) {
						if as, ok := s.Node.(*ast.AssignStmt); ok && len(as.Rhs) == 1 && isAppend(f, as.Rhs[0]) {
							out = append(out, s)
						}
					}
					return out
				}
			}
			table := []site{
				{lw + "LightningChannel.fetchHTLCView", appendTo("ourHTLCs"), []an.Fact{an.CmpX(idx, an.LT, an.Param(1), "LogIndex < ourLogIndex")}},
				{lw + "LightningChannel.fetchHTLCView", appendTo("theirHTLCs"), []an.Fact{an.CmpX(idx, an.LT, an.Param(0), "LogIndex < theirLogIndex")}},
				{lw + "LightningChannel.getUnsignedAckedUpdates", appendTo("logUpdates"), []an.Fact{
					an.CmpX(idx, an.GE, canonTerm(`commitChains\.Remote\.tail\(\)\.messageIndices\.Remote$`), "LogIndex >= remote tail's remote index"),
					an.CmpX(idx, an.LT, canonTerm(`commitChains\.Local\.tail\(\)\.messageIndices\.Remote$`), "LogIndex < local tail's remote index")}},
				{lw + "LightningChannel.restorePendingRemoteUpdates", func(f *an.Func) []an.Site {
					return f.Assigns(an.LocalNamed("heightSet"), false)
				}, []an.Fact{an.CmpX(idx, an.LT, an.FieldPath(an.FieldPath(an.Param(2), "messageIndices"), "Remote"), "LogIndex < pendingRemoteCommit.messageIndices.Remote"),
					an.IsNil(an.Param(2), false, "pendingRemoteCommit != nil")}},
				{lw + "LightningChannel.restorePendingRemoteUpdates", func(f *an.Func) []an.Site {
					return f.Calls(an.CalleeIs(lw+"updateLog.restoreUpdate"), false)
				}, []an.Fact{an.CmpX(idx, an.LT, an.FieldPath(an.FieldPath(an.FieldPath(nil, "updateLogs"), "Remote"), "logIndex"), "LogIndex < updateLogs.Remote.logIndex")}},
			}
			for _, t := range table {
				f := p.Func(t.fn)
				ss := t.sites(f)
				if len(ss) == 0 {
					o.FailAt(t.fn+"#window-site-missing", f.Where(f.Body.Pos()), "selection site not found in %s", t.fn)
				}
				guardedAll(o, f, ss, t.facts...)
			}
			for _, t := range []struct{ fn, list, bound string }{
				{"channeldb.ChannelStateDB.UpdateChannelCommitment", "unsignedUpdates", "LocalLogIndex"},
				{"channeldb.ChannelStateDB.AdvanceCommitChainTail", "validUpdates", "RemoteLogIndex"},
			} {
				cl := theLit(p.Func(t.fn), kvUpdate, "kvdb.Update")
				ss := appendTo(t.list)(cl)
				if len(ss) != 1 {
					o.FailAt(t.fn+"#window-site-missing", cl.Where(cl.Body.Pos()), "expected one append to %s, found %d", t.list, len(ss))
					continue
				}
				guarded(o, cl, ss[0], an.CmpX(idx, an.GE, an.FieldPath(nil, t.bound), "LogIndex >= "+t.bound))
			}
		})

	r.Obl("restore-dispatch-complete", "REG",
		"the two loops of restoreStateLogs that recover add heights from persisted settle/fail updates handle the same set of wire messages, including update_fulfill_htlc, update_fail_htlc and update_fail_malformed_htlc; the update-type switches that set commit heights, convert to log updates and classify uncommitted updates name every update type",
		"an update type missing from one dispatch is restored with a zero height (or not at all) only for that rarely used message, and the next signature after a restart is rejected", 7,
		func(o *an.Obl) {
			f := p.Func(lw + "LightningChannel.restoreStateLogs")
			var sets [][]string
			ast.Inspect(f.Body, func(n ast.Node) bool {
				ts, ok := n.(*ast.TypeSwitchStmt)
				if !ok {
					return true
				}
				var names []string
				for _, cl := range ts.Body.List {
					for _, e := range cl.(*ast.CaseClause).List {
						names = append(names, an.TypeID(f.Info().TypeOf(e)))
					}
				}
				sets = append(sets, names)
				o.Site("restoreStateLogs type switch at %s: %v", f.Where(ts.Pos()), names)
				return true
			})
			if len(sets) != 2 {
				o.FailAt(f.ID+"#type-switches", f.Where(f.Body.Pos()), "expected two message type switches, found %d", len(sets))
			}
			for _, s := range sets {
				for _, w := range []string{"lnwire.UpdateFulfillHTLC", "lnwire.UpdateFailHTLC", "lnwire.UpdateFailMalformedHTLC"} {
					found := false
					for _, x := range s {
						found = found || x == w
					}
					if !found {
						o.FailAt(f.ID+"#missing-"+w, f.Where(f.Body.Pos()), "a restore loop of restoreStateLogs does not handle %s (handles %v)", w, s)
					}
				}
			}
			all := p.EnumConsts("lnwallet", "updateType")
			want := map[string][][]string{
				lw + "paymentDescriptor.setCommitHeight":   {{"Add", "NoOpAdd"}, {"Settle", "Fail", "MalformedFail"}, {"FeeUpdate"}},
				lw + "paymentDescriptor.toLogUpdate":       {{"Add", "NoOpAdd"}, {"Settle"}, {"Fail"}, {"MalformedFail"}, {"FeeUpdate"}},
				lw + "LightningChannel.createCommitDiff":   {{"Add"}, {"Settle", "Fail", "MalformedFail"}, {"FeeUpdate"}},
				lw + "LightningChannel.evaluateHTLCView#1": {{"Settle", "Fail", "MalformedFail"}},
				lw + "LightningChannel.evaluateHTLCView#2": {{"Add", "NoOpAdd"}, {"FeeUpdate"}, {"Settle", "Fail", "MalformedFail"}},
			}
			seen := map[string]int{}
			for _, es := range p.EnumSwitches("lnwallet", "updateType", "lnwallet") {
				key := es.Fn.ID
				seen[key]++
				if _, ok := want[key]; !ok {
					key = key + "#" + itoa(seen[es.Fn.ID])
				}
				groups, ok := want[key]
				if !ok {
					continue
				}
				o.Site("%s: %v default=%v", key, es.Clauses, es.HasDefault)
				delete(want, key)
				for _, g := range groups {
					// the group must appear inside one clause
					okg := false
					for _, cl := range es.Clauses {
						has := 0
						for _, c := range g {
							for _, x := range cl {
								if x == c {
									has++
								}
							}
						}
						okg = okg || has == len(g)
					}
					if !okg {
						o.FailAt(key+"#group-"+strings.Join(g, "+"), es.Where, "%s: the update types %v are no longer handled together in one case (clauses: %v)", key, g, es.Clauses)
					}
				}
				_ = all
			}
			for k := range want {
				o.FailAt(k+"#switch-missing", "", "update-type switch %s not found", k)
			}
		})
}

func isAppend(f *an.Func, e ast.Expr) bool {
	c, ok := ast.Unparen(e).(*ast.CallExpr)
	return ok && an.CalleeID(f.Info(), c) == "builtin.append"
}
