package spec

import (
	"go/ast"
	"strings"

	"lndlint/internal/an"
)

func init() {
	register(&Spec{
		ID:          "C08",
		Loads:       []LoadSpec{{Patterns: []string{"./htlcswitch", "./lnwallet", "./chanstate", "./channeldb"}}},
		Explanation: "Decides that an incoming HTLC is settled only through the two link entry points, whose preimage originates from the settle packet of the outgoing HTLC (forwarded) or from an invoice-registry settle resolution (exit hop), and that the state machine accepts a settle only for a matching preimage; that a settle learned from the outgoing peer is forwarded only after the state machine verified it against the outgoing HTLC; that fail packets towards the incoming link are built only from forwarding packages (updates irrevocably committed on both commitments, produced by ReceiveRevocation or reloaded from disk); the forwarding filter of ReceiveRevocation; that the forwarding decision is durable before packets leave the link; and that acks and circuit closure ride in the commit diff.",
		NotDecided: []string{
			"balance conservation at quiescence", "goroutine scheduling, message drops and link restarts",
			"that held invoices are eventually resolved",
		},
		Assumptions: commonAssumptions,
		Engines:     "WHO, ROLE, GUARD, PATH",
		TagMatrix:   [][]string{{"integration"}},
		Run:         runC08,
	})
}

func runC08(r *an.Run) {
	p := r.Prog

	r.Obl("settle-preimage-origin", "WHO",
		"LightningChannel.SettleHTLC has exactly two callers: processLocalUpdateFulfillHTLC, passing the PaymentPreimage of the switch packet's update_fulfill_htlc together with the packet's incoming HTLC id and references, and settleHTLC (exit hop), whose preimage comes from an invoice-registry HtlcSettleResolution; both settle entry points of the state machine require RHash == sha256(preimage) for the HTLC found under the given index in the log of the party that added it (SettleHTLC: remote log, ReceiveHTLCSettle: local log) and append, to the other log, a Settle entry that names that HTLC as its parent and carries that preimage; none of the values involved is overwritten between function entry and the call",
		"an incoming HTLC settled with a preimage that was not learned downstream (or from the node's own invoice) leaves the forwarder out of pocket", 6,
		func(o *an.Obl) {
			w := r.Wide()
			w.WhoMay(o, "lnwallet.LightningChannel.SettleHTLC", w.RefsTo(w.Method("lnwallet", "LightningChannel", "SettleHTLC"), true), map[string]string{
				hs + "channelLink.processLocalUpdateFulfillHTLC": "forwarded settle: preimage carried by the switch packet from the outgoing link",
				hs + "channelLink.settleHTLC":                    "exit hop: preimage from the invoice registry",
			}, []string{hs + "channelLink.processLocalUpdateFulfillHTLC", hs + "channelLink.settleHTLC"})
			settleID := lw + "LightningChannel.SettleHTLC"
			f := p.Func(hs + "channelLink.processLocalUpdateFulfillHTLC")
			fs := f.Calls(an.CalleeIs(settleID), true)
			if c08OneDirect(o, f, "call of SettleHTLC", fs) {
				s := fs[0]
				a := f.ArgCanon(s)
				o.Site("%s args=%v", s.String(), a)
				if a[0] != "$p2.PaymentPreimage" || a[1] != "$p1.incomingHTLCID" || a[2] != "$p1.sourceRef" || a[3] != "$p1.destRef" {
					o.FailAt(f.ID+"#SettleHTLC-args", s.Where(), "the forwarded settle must use the packet's preimage, incoming HTLC id and references; got %v", a[:4])
				}
				// $p1 / $p2 name the values the caller handed in only if nothing
				// overwrites them (or the fields read) on the way to the call
				c08UnwrittenBefore(o, f, s, f.Params(false)[1:3], "PaymentPreimage", "incomingHTLCID", "sourceRef", "destRef")
			}
			g := p.Func(hs + "channelLink.settleHTLC")
			gs := g.Calls(an.CalleeIs(settleID), true)
			if c08OneDirect(o, g, "call of SettleHTLC", gs) {
				s := gs[0]
				a := g.ArgCanon(s)
				o.Site("%s args=%v", s.String(), a)
				if a[0] != "$p0" || a[1] != "$p1" {
					o.FailAt(g.ID+"#SettleHTLC-args", s.Where(), "the exit-hop settle must use its preimage and HTLC index parameters; got %v", a[:2])
				}
				c08UnwrittenBefore(o, g, s, g.Params(false)[0:2])
			}
			w.WhoMay(o, hs+"channelLink.settleHTLC", w.RefsTo(w.Method("htlcswitch", "channelLink", "settleHTLC"), false), map[string]string{
				hs + "channelLink.processHtlcResolution": "invoice registry resolution",
			}, []string{hs + "channelLink.processHtlcResolution"})
			h := p.Func(hs + "channelLink.processHtlcResolution")
			hsites := h.Calls(an.CalleeIs(hs+"channelLink.settleHTLC"), true)
			if c08OneDirect(o, h, "call of settleHTLC", hsites) {
				s := hsites[0]
				a := h.ArgCanon(s)
				o.Site("%s args=%v", s.String(), a)
				if !strings.HasSuffix(a[0], ".Preimage") {
					o.FailAt(h.ID+"#preimage-source", s.Where(), "the exit-hop preimage is %s, expected the settle resolution's Preimage", a[0])
				}
				guarded(o, h, s, an.TypeCaseIs("invoices.HtlcSettleResolution", true, "resolution is an HtlcSettleResolution"))
			}
			// SettleHTLC removes an HTLC the remote party added (remote log) by an
			// entry in the local log; ReceiveHTLCSettle the mirror image
			for _, ep := range []struct{ name, lookup, appendTo string }{
				{"SettleHTLC", "Remote", "Local"},
				{"ReceiveHTLCSettle", "Local", "Remote"},
			} {
				sf := p.Func(lw + "LightningChannel." + ep.name)
				app := sf.Calls(an.CalleeIs(lw+"updateLog.appendUpdate"), true)
				if !c08OneDirect(o, sf, "appendUpdate", app) {
					continue
				}
				// the hash compared is the one of the HTLC found under the given
				// index in the log of the party that added it, the preimage hashed
				// is this call's
				found := `$recv.updateLogs.` + ep.lookup + `.lookupHtlc($p1)`
				logHtlc := canonTerm(`^` + regexpQuote(found) + `\.RHash$`)
				guarded(o, sf, app[0], an.Cmp(logHtlc, an.EQ, an.CallTo("crypto/sha256.Sum256", nil, canonTerm(`^\$p0(\[:\])?$`)), found+".RHash == sha256(preimage)"))
				c08UnwrittenBefore(o, sf, app[0], sf.Params(false)[0:2])
				call := app[0].Node.(*ast.CallExpr)
				if sel, ok := ast.Unparen(call.Fun).(*ast.SelectorExpr); ok {
					if got, want := sf.Canon(sel.X), "$recv.updateLogs."+ep.appendTo; got != want {
						o.FailAt(sf.ID+"#settle-entry-log", app[0].Where(), "%s appends the settle entry to %s, expected %s", ep.name, got, want)
					}
				}
				// the entry appended settles that very HTLC with that very preimage
				kv := c08LitFields(sf, call.Args[0])
				if kv == nil {
					o.FailAt(sf.ID+"#settle-entry-shape", app[0].Where(), "the settle entry appended by %s is not a uniquely defined paymentDescriptor literal: %s", ep.name, sf.Canon(call.Args[0]))
					continue
				}
				o.Site("%s appends {ParentIndex: %s, RPreimage: %s, EntryType: %s}", ep.name, sf.Canon(kv["ParentIndex"]), sf.Canon(kv["RPreimage"]), sf.Canon(kv["EntryType"]))
				if pi := sf.Canon(kv["ParentIndex"]); pi != "$p1" && pi != found+".HtlcIndex" {
					o.FailAt(sf.ID+"#settle-entry-parent", app[0].Where(), "the settle entry of %s names %q as the HTLC it removes, expected the index whose hash was checked ($p1 or %s.HtlcIndex)", ep.name, pi, found)
				}
				if pre := sf.Canon(kv["RPreimage"]); pre != "$p0" {
					o.FailAt(sf.ID+"#settle-entry-preimage", app[0].Where(), "the settle entry of %s carries the preimage %q, expected the verified one ($p0)", ep.name, pre)
				}
				if et := sf.Canon(kv["EntryType"]); et != "lnwallet.Settle" {
					o.FailAt(sf.ID+"#settle-entry-type", app[0].Where(), "the entry appended by %s has type %q, expected Settle", ep.name, et)
				}
				if id, ok := ast.Unparen(call.Args[0]).(*ast.Ident); ok {
					if ws := c08WritesOf(sf, c08ObjOf(sf.Info(), id), true); len(ws) > 0 {
						o.FailAt(sf.ID+"#settle-entry-rewritten", app[0].Where(), "the settle entry of %s is written after its construction: %s", ep.name, ws[0])
					}
				}
			}
		})

	r.Obl("responses-forwarded-only-when-justified", "PATH",
		"a settle received from the outgoing peer is forwarded upstream (forwardBatch) only after channel.ReceiveHTLCSettle accepted its preimage, and carries that same preimage; fail packets for the incoming link are created only in processRemoteSettleFails, i.e. from a forwarding package; processRemoteSettleFails and processRemoteAdds are called only with the package returned by ReceiveRevocation or reloaded by resolveFwdPkg; the link's receipt of update_fail_htlc / update_fail_malformed_htlc forwards nothing",
		"an incoming HTLC must be failed back only once the outgoing HTLC is irrevocably removed; failing back on the mere receipt of update_fail lets the downstream peer still claim the HTLC", 10,
		func(o *an.Obl) {
			f := p.Func(hs + "channelLink.processRemoteUpdateFulfillHTLC")
			fb := f.Calls(an.CalleeIs(hs+"channelLink.forwardBatch"), false)
			rs := f.Calls(an.CalleeNamed("ReceiveHTLCSettle"), false)
			if need(o, f, "forwardBatch", fb, 1) && need(o, f, "ReceiveHTLCSettle", rs, 1) {
				mustPass(o, f, "ReceiveHTLCSettle", rs, an.OkErrNil, fb)
				a := f.ArgCanon(rs[0])
				if a[0] != "$p0.PaymentPreimage" || a[1] != "$p0.ID" {
					o.FailAt(f.ID+"#ReceiveHTLCSettle-args", rs[0].Where(), "ReceiveHTLCSettle must check the message's own preimage and id; got %v", a)
				}
				c := f.Canon(fb[0].Node.(*ast.CallExpr).Args[1])
				o.Site("forwarded settle packet: %s", c)
				if !strings.Contains(c, "PaymentPreimage: $p0.PaymentPreimage") || !strings.Contains(c, "outgoingHTLCID: $p0.ID") {
					o.FailAt(f.ID+"#forwarded-preimage", fb[0].Where(), "the settle forwarded upstream does not carry the verified preimage/id: %s", c)
				}
			}
			// where packets carrying a fail are built
			for _, fn := range p.Funcs(false, "htlcswitch") {
				if !strings.HasPrefix(fn.ID, hs+"channelLink.") || fn.Lit != nil {
					continue
				}
				for _, ref := range fn.Calls(an.CalleeIs(hs+"channelLink.forwardBatch"), true) {
					o.Site("forwardBatch called from %s", ref.String())
					switch fn.ID {
					case hs + "channelLink.processRemoteSettleFails", hs + "channelLink.processRemoteAdds", hs + "channelLink.processRemoteUpdateFulfillHTLC":
					default:
						o.FailAt("forwardBatch<-"+fn.ID, ref.Where(), "%s forwards packets to the switch; only forwarding-package processing and a verified upstream settle may", fn.ID)
					}
				}
			}
			for _, name := range []string{"processRemoteUpdateFailHTLC", "processRemoteUpdateFailMalformedHTLC"} {
				g := p.Func(hs + "channelLink." + name)
				if n := len(g.Calls(an.CalleeNamed("forwardBatch", "ForwardPackets", "Deliver"), true)); n != 0 {
					o.FailAt(g.ID+"#forwards", g.Where(g.Body.Pos()), "%s forwards a response before the removal is irrevocably committed", name)
				}
				o.Site("%s forwards nothing", name)
			}
			w := r.Wide()
			for _, m := range []string{"processRemoteSettleFails", "processRemoteAdds"} {
				w.WhoMay(o, hs+"channelLink."+m, w.RefsTo(w.Method("htlcswitch", "channelLink", m), false), map[string]string{
					hs + "channelLink.processRemoteRevokeAndAck": "package returned by ReceiveRevocation",
					hs + "channelLink.resolveFwdPkg":             "package reloaded from disk",
				}, nil)
			}
			rv := p.Func(hs + "channelLink.processRemoteRevokeAndAck")
			for _, s := range rv.Calls(an.CalleeIs(hs+"channelLink.processRemoteSettleFails", hs+"channelLink.processRemoteAdds"), false) {
				a := rv.ArgCanon(s)
				o.Site("%s arg=%s", s.String(), a[0])
				if !strings.Contains(a[0], ".ReceiveRevocation(") {
					o.FailAt(rv.ID+"#fwdpkg-source", s.Where(), "the forwarding package processed after a revocation is %s, expected the result of channel.ReceiveRevocation", a[0])
				}
				mustPass(o, rv, "ReceiveRevocation", rv.Calls(an.CalleeNamed("ReceiveRevocation"), false), an.OkErrNil, []an.Site{s})
			}
		})

	r.Obl("revocation-forwarding-filter", "GUARD",
		"ReceiveRevocation puts an Add into the forwarding package only if it is not yet forwarded, both add heights are non-zero, the remote tail just reached its remote add height and the local tail has reached its local add height; a Settle/Fail likewise on the remove heights; fee updates never; each packaged update is marked forwarded",
		"an update forwarded before it is locked into both commitments can still be rolled back by the peer; one forwarded twice doubles the HTLC", 6,
		func(o *an.Obl) {
			f := p.Func(lw + "LightningChannel.ReceiveRevocation")
			def := func(name string) string {
				for _, s := range f.Assigns(an.LocalNamed(name), false) {
					if as, ok := s.Node.(*ast.AssignStmt); ok && len(as.Rhs) == 1 {
						return f.Canon(as.Rhs[0])
					}
				}
				return ""
			}
			tail := `\(\$recv\.commitChains\.Remote\.tail\(\)\.height \+ 1\)`
			ltail := `\$recv\.commitChains\.Local\.tail\(\)\.height`
			want := map[string]string{
				"committedAdd": `^\(\(.*\.addCommitHeights\.Remote > 0\) && \(.*\.addCommitHeights\.Local > 0\)\)$`,
				"committedRmv": `^\(\(.*\.removeCommitHeights\.Remote > 0\) && \(.*\.removeCommitHeights\.Local > 0\)\)$`,
				"shouldFwdAdd": `^\(\(` + tail + ` == .*\.addCommitHeights\.Remote\) && \(` + ltail + ` >= .*\.addCommitHeights\.Local\)\)$`,
				"shouldFwdRmv": `^\(\(` + tail + ` == .*\.removeCommitHeights\.Remote\) && \(` + ltail + ` >= .*\.removeCommitHeights\.Local\)\)$`,
			}
			for name, re := range want {
				c := def(name)
				o.Site("%s := %s", name, c)
				if !reMatch(re, c) {
					o.FailAt(f.ID+"#"+name, f.Where(f.Body.Pos()), "the forwarding predicate %s is %s, expected /%s/", name, c, re)
				}
			}
			for list, preds := range map[string][]an.Fact{
				"addUpdatesToForward": {
					an.Truth(an.CallNamed("isAdd", nil), true, "pd.isAdd()"),
					an.Truth(an.LocalNamed("committedAdd"), true, "committedAdd"), an.Truth(an.LocalNamed("shouldFwdAdd"), true, "shouldFwdAdd")},
				"settleFailUpdatesToForward": {
					an.Truth(an.CallNamed("isAdd", nil), false, "!pd.isAdd()"),
					an.Truth(an.LocalNamed("committedRmv"), true, "committedRmv"), an.Truth(an.LocalNamed("shouldFwdRmv"), true, "shouldFwdRmv")},
			} {
				var app []an.Site
				for _, s := range f.Assigns(an.LocalNamed(list), false) {
					if as, ok := s.Node.(*ast.AssignStmt); ok && len(as.Rhs) == 1 && isAppend(f, as.Rhs[0]) {
						app = append(app, s)
					}
				}
				if len(app) != 1 {
					o.FailAt(f.ID+"#"+list, f.Where(f.Body.Pos()), "expected one append to %s, found %d", list, len(app))
					continue
				}
				guardedAll(o, f, app, preds...)
				guardedAll(o, f, app,
					an.Truth(an.FieldPath(nil, "isForwarded"), false, "!pd.isForwarded"),
					an.Cmp(an.FieldPath(nil, "EntryType"), an.NE, an.PkgVar("lnwallet", "FeeUpdate"), "pd.EntryType != FeeUpdate"))
				marks := f.Assigns(an.Field(lw+"paymentDescriptor", "isForwarded", nil), false)
				if len(marks) != 2 || !f.Before(marks, app[0]) {
					o.FailAt(f.ID+"#"+list+"-marked", app[0].Where(), "a packaged update is not marked forwarded before it is added to the package")
				}
			}
		})

	r.Obl("forwarding-decision-durable-first", "PATH",
		"processRemoteAdds hands the batch to the switch (forwardBatch) only after channel.SetFwdFilter succeeded whenever the package is still in the locked-in state; acks of add/settle-fail references and circuit closure are carried by the commit diff (C07 circuit-codec-and-commit-diff)",
		"if the decision is not durable, a restart re-evaluates the adds and can forward an HTLC that was already failed back, or the reverse", 2,
		func(o *an.Obl) {
			f := p.Func(hs + "channelLink.processRemoteAdds")
			fb := f.Calls(an.CalleeIs(hs+"channelLink.forwardBatch"), false)
			sf := f.Calls(an.CalleeNamed("SetFwdFilter"), false)
			if need(o, f, "forwardBatch", fb, 1) && need(o, f, "SetFwdFilter", sf, 1) {
				es, _ := f.UnionOk(sf, an.OkErrNil)
				for e := range f.EdgesOf(an.Cmp(an.FieldPath(an.Param(0), "State"), an.NE, an.PkgVar("chanstate", "FwdStateLockedIn"), "")) {
					es[e] = true
				}
				for e := range f.EdgesOf(an.Cmp(an.FieldPath(an.Param(0), "State"), an.NE, an.PkgVar("channeldb", "FwdStateLockedIn"), "")) {
					es[e] = true
				}
				o.Site("through %s", sf[0].String())
				o.Site("target %s", fb[0].String())
				if bad := f.MustPass(fb, es); len(bad) > 0 {
					o.FailAt(f.ID+"#fwdfilter-before-forward", fb[0].Where(), "packets of a locked-in package can reach the switch before the forwarding filter is durable: %s", bad[0])
				}
				a := f.ArgCanon(sf[0])
				if a[0] != "$p0.Height" || a[1] != "$p0.FwdFilter" {
					o.FailAt(f.ID+"#SetFwdFilter-args", sf[0].Where(), "SetFwdFilter must persist this package's height and filter; got %v", a)
				}
			}
		})

	r.Obl("response-acked-only-when-delivered-or-moot", "GUARD",
		"a settle/fail reference of an outgoing channel's forwarding package is acknowledged (AckSettleFails, ackSettleFail, queued in pendingSettleFails) only: by the switch when the circuit is unknown (already fully closed and deleted), by the switch for a locally initiated payment after its result was stored, by the ack ticker flushing that queue, and by a link cleaning up a spurious response (only when SettleHTLC/FailHTLC just refused the response with ErrUnknownHtlcIndex) after acking the incoming add; the acknowledging functions are never taken as function values",
		"acknowledging a response that merely sits in the incoming mailbox makes the restart skip its re-forwarding: the downstream settle is lost and the incoming HTLC dangles", 5,
		func(o *an.Obl) {
			n := 0
			for _, f := range p.Funcs(false, "htlcswitch") {
				// queue appends
				for _, s := range f.Assigns(an.Field(hs+"Switch", "pendingSettleFails", nil), false) {
					as := s.Node.(*ast.AssignStmt)
					if !isAppend(f, as.Rhs[0]) {
						// the flush `= s.pendingSettleFails[:0]`
						if f.ID != hs+"Switch.htlcForwarder" {
							o.FailAt(f.ID+"#queue-reset", s.Where(), "%s resets the pending settle/fail queue", f.ID)
						}
						continue
					}
					n++
					o.Site("%s", s.String())
					if f.ID != hs+"Switch.closeCircuit" {
						o.FailAt(f.ID+"#queues-ack", s.Where(), "%s queues a settle/fail acknowledgement", f.ID)
						continue
					}
					// the error compared is the very result of CloseCircuit for the
					// packet's outgoing key (a reassigned err has no such form)
					guarded(o, f, s, an.Cmp(canonTerm(`^\$recv\.circuits\.CloseCircuit\(\$p0\.outKey\(\)\)#1$`), an.EQ, an.PkgVar("htlcswitch", "ErrUnknownCircuit"), "CloseCircuit(pkt.outKey()) error == ErrUnknownCircuit"))
					if c := f.Canon(as.Rhs[0]); !strings.HasSuffix(c, "*$p0.destRef)") {
						o.FailAt(f.ID+"#queued-ref", s.Where(), "the queued reference is %s, expected the packet's destRef", c)
					}
				}
				for _, s := range f.Calls(an.CalleeNamed("ackSettleFail", "AckSettleFails"), false) {
					if strings.HasSuffix(f.Root().ID, ".ackSettleFail") {
						continue
					}
					n++
					o.Site("%s", s.String())
					switch f.ID {
					case hs + "Switch.handleLocalResponse":
						mustPass(o, f, "networkResults.storeResult", f.Calls(an.CalleeNamed("storeResult"), false), an.OkErrNil, []an.Site{s})
					case hs + "Switch.htlcForwarder":
						if a := f.ArgCanon(s); a[0] != "$recv.pendingSettleFails" {
							o.FailAt(f.ID+"#flushes", s.Where(), "the ack ticker acknowledges %s", a[0])
						}
					case hs + "channelLink.cleanupSpuriousResponse":
						mustPass(o, f, "AckAddHtlcs", f.Calls(an.CalleeNamed("AckAddHtlcs"), false), an.OkErrNil, []an.Site{s})
					default:
						o.FailAt(f.ID+"#acks-response", s.Where(), "%s acknowledges a settle/fail reference; the site is not in the table", f.ID)
					}
				}
			}
			if n < 4 {
				o.FailAt("AckSettleFails#sites", "", "expected at least 4 acknowledgement sites, found %d", n)
			}
			// the acknowledging functions are only ever called, never taken as a
			// value (a call through a value is none of the sites above)
			for _, f := range p.Funcs(false, "htlcswitch") {
				if f.Lit != nil {
					continue
				}
				for _, where := range c08ValuesTaken(f, "ackSettleFail", "AckSettleFails", "cleanupSpuriousResponse") {
					o.FailAt(f.ID+"#ack-through-value", where, "%s takes a function value of an acknowledging function; its call is not classified", f.ID)
				}
			}
			// the link cleans up (acks add and settle/fail reference) only for a
			// response whose HTLC the state machine no longer knows
			w := r.Wide()
			w.WhoMay(o, hs+"channelLink.cleanupSpuriousResponse", w.RefsTo(w.Method("htlcswitch", "channelLink", "cleanupSpuriousResponse"), false), map[string]string{
				hs + "channelLink.processLocalUpdateFulfillHTLC": "settle of an HTLC unknown to the state machine",
				hs + "channelLink.processLocalUpdateFailHTLC":    "fail of an HTLC unknown to the state machine",
			}, nil)
			for fn, callee := range map[string]string{"processLocalUpdateFulfillHTLC": "SettleHTLC", "processLocalUpdateFailHTLC": "FailHTLC"} {
				f := p.Func(hs + "channelLink." + fn)
				cs := f.Calls(an.CalleeIs(hs+"channelLink.cleanupSpuriousResponse"), false)
				rm := f.Calls(an.CalleeIs(lw+"LightningChannel."+callee), false)
				if !needExactly(o, f, "cleanupSpuriousResponse", cs, 1) || !needExactly(o, f, callee, rm, 1) {
					continue
				}
				if a := f.ArgCanon(cs[0]); a[0] != "$p1" {
					o.FailAt(f.ID+"#cleans-other-packet", cs[0].Where(), "the packet cleaned up is %s, expected the one being processed", a[0])
				}
				guarded(o, f, cs[0], an.Truth(c08ErrorAsUnknownIndex, true, "ErrorAs[ErrUnknownHtlcIndex](err)"))
				c08AfterFailureOf(o, f, rm, cs[0], callee)
			}
		})

	r.Obl("packets-carry-their-forwarding-references", "ROLE",
		"every switch packet built in htlcswitch carries the durable reference its handling depends on: an add built by the link from a forwarding package has sourceRef; a locally generated failure derived from an add packet (copying its incoming channel and HTLC id) copies that packet's sourceRef and circuit; a settle or fail re-created from a forwarding package's SettleFails has destRef; a settle or fail received from the outgoing link gets the incoming key, the circuit and the AddRef of its circuit (sourceRef) from Switch.closeCircuit before that returns the closed circuit, and no other statement overwrites a packet's sourceRef or destRef; the references are the real ones (sourceRef = &fwdPkg.SourceRef(position); destRef = the reference of the entry of the package whose SettleFails loop builds the packet, carrying that entry's message); Switch.reforwardResponses scans every channel (exactly the list FetchAllChannels returned, which includes channels waiting to close) that is not pending, loads the packages of that channel and hands all of them to reforwardSettleFails, which walks every package and every settle/fail of it",
		"a response without its reference is committed without acknowledging the add (the add is replayed and forwarded again after a restart) or without the downstream reference (the response is retransmitted forever); responses of a closing channel that are not re-forwarded leave the upstream HTLC unsettled although downstream was paid", 12,
		func(o *an.Obl) {
			T := p.LookupType("htlcswitch", "htlcPacket")
			isPacket := func(f *an.Func, e ast.Expr) bool {
				n := an.NamedOf(f.Info().TypeOf(e))
				return n != nil && n.Obj() == T.Obj()
			}
			n := 0
			for _, cl := range p.CompositeLitsOf(T) {
				if cl.Fn == nil {
					continue
				}
				lit := cl.Node.(*ast.CompositeLit)
				f := c08FuncAt(cl.Fn, lit)
				kv := map[string]ast.Expr{}
				for _, el := range lit.Elts {
					if k, ok := el.(*ast.KeyValueExpr); ok {
						kv[an.Text(k.Key)] = k.Value
					}
				}
				n++
				keys := []string{}
				for k := range kv {
					keys = append(keys, k)
				}
				sortStrings(keys)
				o.Site("%s in %s: %v sourceRef=%s destRef=%s", cl.Where, f.ID, keys, c08RefCanon(f, kv["sourceRef"]), c08RefCanon(f, kv["destRef"]))
				htlcT := ""
				if h, ok := kv["htlc"]; ok {
					htlcT = an.TypeID(f.Info().TypeOf(h))
				}
				// derived from another packet: its incoming identity is read from
				// a value of type htlcPacket (field or inKey())
				var src ast.Expr
				for _, k := range []string{"incomingChanID", "incomingHTLCID"} {
					if v, ok := kv[k]; ok {
						ast.Inspect(v, func(m ast.Node) bool {
							if e, ok := m.(ast.Expr); ok && src == nil && isPacket(f, e) {
								src = e
							}
							return src == nil
						})
					}
				}
				if src != nil {
					sc := f.Canon(src)
					for need, alt := range map[string]string{"sourceRef": "", "circuit": "", "incomingHTLCID": ".inKey().HtlcID", "incomingChanID": ".inKey().ChanID"} {
						got := "<absent>"
						if v, has := kv[need]; has {
							got = f.Canon(v)
						}
						if got != sc+"."+need && (alt == "" || got != sc+alt) {
							o.FailAt(f.ID+"#derived-packet-"+need, cl.Where, "the packet derived from %s takes its incoming identity from it but has %s = %s, expected %s.%s", an.Text(src), need, got, an.Text(src), need)
						}
					}
				}
				if strings.HasSuffix(htlcT, "UpdateAddHTLC") && strings.Contains(f.ID, "channelLink.") {
					// the reference of a forwarding package handed to this function
					got := c08RefCanon(f, kv["sourceRef"])
					if !reMatch(`^&\$p\d+\.SourceRef\(.+\)$`, got) {
						o.FailAt(f.ID+"#add-without-sourceRef", cl.Where, "an add handed to the switch has sourceRef = %s, expected the address of fwdPkg.SourceRef(position)", got)
					}
				}
				// re-created from a forwarding package entry: built inside the loop
				// over a package's SettleFails
				if hdr := c08LoopHeader(f.Root(), lit); strings.HasSuffix(hdr, ".SettleFails") {
					pkg := regexpQuote(strings.TrimSuffix(hdr, ".SettleFails"))
					pos := `uint16\(\$key\(` + pkg + `\.SettleFails\)\)`
					got := c08RefCanon(f, kv["destRef"])
					if !reMatch(`^&`+pkg+`\.DestRef\(`+pos+`\)$`, got) &&
						!reMatch(`^&chan(state|neldb)\.SettleFailRef\{Source: `+pkg+`\.Source, Height: `+pkg+`\.Height, Index: `+pos+`\}$`, got) {
						o.FailAt(f.ID+"#response-without-destRef", cl.Where, "a settle/fail re-created from an entry of %s has destRef = %s, expected the reference of that entry (DestRef(position) or {Source, Height, Index} of that package)", hdr, got)
					}
					if h, has := kv["htlc"]; !has || !reMatch(`^\$elem\(`+pkg+`\.SettleFails\)\.UpdateMsg`, c08SwitchSubject(f.Root(), h)) {
						o.FailAt(f.ID+"#response-not-the-entry", cl.Where, "a settle/fail re-created inside the loop over %s does not carry that entry's message (htlc = %s)", hdr, an.Text(kv["htlc"]))
					}
				} else if _, has := kv["destRef"]; has {
					o.FailAt(f.ID+"#destRef-outside-package-loop", cl.Where, "a packet with a destRef is built outside a loop over a forwarding package's SettleFails")
				}
			}
			if n < 12 {
				o.FailAt("htlcPacket#literals", "", "expected at least 12 packet constructions, found %d", n)
			}
			// the references are not taken away again
			for _, f := range p.Funcs(false, "htlcswitch") {
				for _, fld := range []string{"sourceRef", "destRef"} {
					for _, s := range f.Assigns(an.Field(hs+"htlcPacket", fld, nil), false) {
						as, ok := s.Node.(*ast.AssignStmt)
						rhs := ""
						if ok && len(as.Rhs) == 1 {
							rhs = f.Canon(as.Rhs[0])
						}
						o.Site("%s", s.String())
						if f.Root().ID == hs+"Switch.closeCircuit" && fld == "sourceRef" {
							continue // checked below
						}
						o.FailAt(f.ID+"#"+fld+"-reassigned", s.Where(), "%s overwrites a packet's %s with %s", f.ID, fld, rhs)
					}
				}
			}
			// a response of the outgoing link receives the incoming side of its
			// circuit when the switch closes it
			cc := p.Func(hs + "Switch.closeCircuit")
			ccs := cc.Calls(an.CalleeNamed("CloseCircuit"), false)
			if needExactly(o, cc, "circuits.CloseCircuit", ccs, 1) {
				circ := cc.Canon(ccs[0].Node.(*ast.CallExpr))
				if a := cc.ArgCanon(ccs[0]); a[0] != "$p0.outKey()" {
					o.FailAt(cc.ID+"#closes-other-circuit", ccs[0].Where(), "closeCircuit closes the circuit %s, expected the packet's outgoing key", a[0])
				}
				var rets []an.Site
				for _, rt := range cc.Returns() {
					if rs, ok := rt.Node.(*ast.ReturnStmt); ok && len(rs.Results) == 2 && cc.Canon(rs.Results[0]) == circ {
						rets = append(rets, rt)
					}
				}
				if need(o, cc, "return of the closed circuit", rets, 1) {
					for fld, want := range map[string]string{
						"sourceRef":      "&" + circ + ".AddRef",
						"circuit":        circ,
						"incomingChanID": circ + ".Incoming.ChanID",
						"incomingHTLCID": circ + ".Incoming.HtlcID",
					} {
						var good []an.Site
						for _, s := range cc.Assigns(an.Field(hs+"htlcPacket", fld, an.Param(0)), false) {
							as, ok := s.Node.(*ast.AssignStmt)
							if ok && len(as.Lhs) == 1 && len(as.Rhs) == 1 && cc.Canon(as.Rhs[0]) == want {
								good = append(good, s)
								continue
							}
							o.FailAt(cc.ID+"#"+fld+"-source", s.Where(), "closeCircuit sets the packet's %s by %s, expected %s", fld, s.String(), want)
						}
						before(o, cc, "pkt."+fld+" = "+want, good, "return of the closed circuit", rets)
					}
				}
			}
			f := p.Func(hs + "Switch.reforwardResponses")
			fa := f.Calls(an.CalleeNamed("FetchAllChannels"), false)
			if needExactly(o, f, "cfg.FetchAllChannels", fa, 1) {
				// the loop runs over exactly the list fetched
				all := f.Canon(fa[0].Node.(*ast.CallExpr))
				loopRe := "^" + regexpQuote(all) + "$"
				loopVisitsAll(o, f, loopRe)
				rs := f.Calls(an.CalleeIs(hs+"Switch.reforwardSettleFails"), false)
				ld := f.Calls(an.CalleeIs(hs+"Switch.loadChannelFwdPkgs"), false)
				if needExactly(o, f, "reforwardSettleFails", rs, 1) && needExactly(o, f, "loadChannelFwdPkgs", ld, 1) {
					mustPass(o, f, "loadChannelFwdPkgs", ld, an.OkErrNil, rs)
					// every package loaded for this very channel is re-forwarded
					if a := f.ArgCanon(ld[0]); a[0] != "$elem("+all+").ShortChanID()" {
						o.FailAt(f.ID+"#loads-other-channel", ld[0].Where(), "the forwarding packages are loaded for %s, expected the short channel id of the channel of this iteration", a[0])
					}
					if a, want := f.ArgCanon(rs[0]), f.Canon(ld[0].Node.(*ast.CallExpr)); a[0] != want {
						o.FailAt(f.ID+"#reforwards-other-packages", rs[0].Where(), "reforwardSettleFails is given %s, expected everything loadChannelFwdPkgs returned (%s)", a[0], want)
					}
					// every non-pending channel with a real id is processed
					everyIterationOr(o, f, loopRe, rs, an.AnyOf("pending channel or unassigned id",
						an.Truth(canonTerm(`^\$elem\(`+regexpQuote(all)+`\)\.IsPending$`), true, ""),
						an.Cmp(canonTerm(`^\$elem\(`+regexpQuote(all)+`\)\.ShortChanID\(\)$`), an.EQ, an.PkgVar("htlcswitch/hop", "Source"), "")), "reforwardSettleFails")
				}
			}
			for _, s := range f.AllCalls(false) {
				if id := an.CalleeID(f.Info(), s.Node.(*ast.CallExpr)); strings.HasSuffix(id, ".FetchAllOpenChannels") {
					o.FailAt(f.ID+"#open-only", s.Where(), "reforwardResponses scans only channels in the default state; responses of channels waiting to close must be re-forwarded too")
				}
			}
			// reforwardSettleFails walks every package it is given and every
			// settle/fail of each, and forwards what it collected
			rf := p.Func(hs + "Switch.reforwardSettleFails")
			notReassigned(o, rf, rf.Params(false)[0].Name())
			loopVisitsAll(o, rf, `^\$p0$`)
			loopVisitsAll(o, rf, `^\$elem\(\$p0\)\.SettleFails$`)
		})

	fwdPkgPositions(r)
	c08Replay(r)
}
