package spec

import (
	"go/ast"
	"go/token"
	"strings"

	"lndlint/internal/an"
)

// fwdPkgPositions: the forwarding package keys its references and filters by
// the position of an update inside the package (FwdPkg.Adds for SourceRef,
// FwdFilter and AckFilter; FwdPkg.SettleFails for DestRef and
// SettleFailFilter).  Every position handed to them in htlcswitch must be
// that position and not the position inside a derived (filtered) slice.
func fwdPkgPositions(r *an.Run) {
	p := r.Prog
	r.Obl("fwdpkg-positions-are-package-indexes", "ROLE",
		"in htlcswitch every position passed to FwdPkg.SourceRef, FwdFilter.Contains/Set and AckFilter.Contains is uint16 of the key of a range over that package's Adds, and every position passed to FwdPkg.DestRef and SettleFailFilter.Contains is uint16 of the key of a range over that package's SettleFails; when the loop runs over a filtered copy, the position is read from a companion slice that is appended to in the same block as the copy and only with uint16 of the key of the range over the package's list",
		"AddRefs, SettleFailRefs and the three filters are how acks, the forwarded set and garbage collection of a package are keyed; the position within a filtered slice names a different update as soon as an earlier one was skipped (replay of a partially acked package after a restart)", 8,
		func(o *an.Obl) {
			n := 0
			for _, f := range p.Funcs(false, "htlcswitch") {
				if f.Lit != nil {
					continue
				}
				for _, s := range f.AllCalls(true) {
					call := s.Node.(*ast.CallExpr)
					sel, ok := ast.Unparen(call.Fun).(*ast.SelectorExpr)
					if !ok || len(call.Args) != 1 {
						continue
					}
					id := an.CalleeID(s.Fn.Info(), call)
					var base ast.Expr
					list := ""
					switch {
					case strings.HasSuffix(id, "FwdPkg.SourceRef"):
						base, list = sel.X, "Adds"
					case strings.HasSuffix(id, "FwdPkg.DestRef"):
						base, list = sel.X, "SettleFails"
					case strings.HasSuffix(id, "PkgFilter.Contains"), strings.HasSuffix(id, "PkgFilter.Set"):
						fs, ok := ast.Unparen(sel.X).(*ast.SelectorExpr)
						if !ok {
							continue
						}
						switch fs.Sel.Name {
						case "FwdFilter", "AckFilter":
							base, list = fs.X, "Adds"
						case "SettleFailFilter":
							base, list = fs.X, "SettleFails"
						default:
							continue
						}
					default:
						continue
					}
					n++
					fn := s.Fn
					want := "uint16($key(" + fn.Canon(base) + "." + list + "))"
					got := fn.Canon(call.Args[0])
					o.Site("%s %s.%s(%s)", s.Where(), an.Text(sel.X), sel.Sel.Name, got)
					if got == want {
						continue
					}
					if why := companionIndex(fn, call.Args[0], want); why != "" {
						o.FailAt(fn.Root().ID+"#"+sel.Sel.Name+"-position", s.Where(), "%s.%s is given %s, expected %s (the update's position in the package): %s", an.Text(sel.X), sel.Sel.Name, got, want, why)
					}
				}
			}
			if n < 8 {
				o.FailAt("fwdpkg-positions#sites", "", "expected at least 8 position uses, found %d", n)
			}
		})
}

// companionIndex accepts `S[k]` (possibly through one unique local
// definition) where k is the key of a range over a local slice T, and S and T
// are filled only by appends that sit pairwise in the same block, S receiving
// exactly `want`.  It returns "" when the shape holds and the reason when not.
func companionIndex(f *an.Func, arg ast.Expr, want string) string {
	arg = ast.Unparen(arg)
	if id, ok := arg.(*ast.Ident); ok {
		if d := f.UniqueDef(id); d != nil {
			arg = ast.Unparen(d)
		}
	}
	ix, ok := arg.(*ast.IndexExpr)
	if !ok {
		return "not the package position and not read from a companion slice"
	}
	sID, ok := ast.Unparen(ix.X).(*ast.Ident)
	if !ok {
		return "indexed value is not a local slice"
	}
	kc := f.Canon(ix.Index)
	if !strings.HasPrefix(kc, "$key(") {
		return "companion slice is not indexed by a range key"
	}
	root := f.Root()
	info := root.Info()
	sObj := info.Uses[sID]
	// the ranged slice T
	var tObj interface{}
	ast.Inspect(root.Body, func(n ast.Node) bool {
		if rs, ok := n.(*ast.RangeStmt); ok {
			if k, ok := rs.Key.(*ast.Ident); ok && info.Defs[k] != nil {
				if ki, ok := ast.Unparen(ix.Index).(*ast.Ident); ok && info.Uses[ki] == info.Defs[k] {
					if t, ok := ast.Unparen(rs.X).(*ast.Ident); ok {
						tObj = info.Uses[t]
					}
				}
			}
		}
		return true
	})
	if tObj == nil {
		return "the range key does not run over a local slice"
	}
	// appends to S and T, by enclosing block
	sBlocks := map[*ast.BlockStmt]int{}
	tBlocks := map[*ast.BlockStmt]int{}
	why := ""
	var stack []ast.Node
	ast.Inspect(root.Body, func(n ast.Node) bool {
		if n == nil {
			stack = stack[:len(stack)-1]
			return true
		}
		stack = append(stack, n)
		as, ok := n.(*ast.AssignStmt)
		if !ok || len(as.Lhs) != 1 || len(as.Rhs) != 1 {
			return true
		}
		l, ok := as.Lhs[0].(*ast.Ident)
		if !ok {
			return true
		}
		obj := info.Uses[l]
		if obj == nil {
			obj = info.Defs[l]
		}
		if obj != sObj && obj != tObj {
			return true
		}
		var blk *ast.BlockStmt
		for i := len(stack) - 2; i >= 0; i-- {
			if b, ok := stack[i].(*ast.BlockStmt); ok {
				blk = b
				break
			}
		}
		c, isCall := ast.Unparen(as.Rhs[0]).(*ast.CallExpr)
		fnName := ""
		if isCall {
			if fi, ok := c.Fun.(*ast.Ident); ok {
				fnName = fi.Name
			}
		}
		switch {
		case as.Tok == token.DEFINE && fnName == "make":
			// initial empty slice
			if len(c.Args) >= 2 && root.Canon(c.Args[1]) != "0" {
				why = "a companion slice starts non-empty"
			}
		case fnName == "append" && len(c.Args) == 2 && !c.Ellipsis.IsValid():
			if a0, ok := c.Args[0].(*ast.Ident); !ok || info.Uses[a0] != obj {
				why = "a companion slice is rebuilt from another slice"
				return true
			}
			if obj == sObj {
				if got := root.Canon(c.Args[1]); got != want {
					why = "the companion slice receives " + got + ", expected " + want
				}
				sBlocks[blk]++
			} else {
				tBlocks[blk]++
			}
		default:
			why = "a companion slice is assigned other than by make/append"
		}
		return true
	})
	if why != "" {
		return why
	}
	if len(sBlocks) == 0 {
		return "the companion slice is never appended to"
	}
	for b, c := range sBlocks {
		if tBlocks[b] != c {
			return "the companion slice and the ranged slice are not appended to pairwise in the same block"
		}
	}
	for b, c := range tBlocks {
		if sBlocks[b] != c {
			return "the companion slice and the ranged slice are not appended to pairwise in the same block"
		}
	}
	return ""
}
