package spec

import (
	"go/ast"
	"strings"

	"lndlint/internal/an"
	"lndlint/internal/flow"
)

func init() {
	specExtras["C06"] = append(specExtras["C06"], c06f5RevocationStateLock, c06f5RevokedCommitmentLeavesTheChain, c04BreachLookup)
}

// c06f5RevFields are the fields of chanstate.OpenChannel that make up the
// revocation state of the remote chain: what fetchChanRevocationState reads
// and putChanRevocationState writes.
var c06f5RevFields = []string{"RevocationStore", "RemoteCurrentRevocation", "RemoteNextRevocation"}

// c06f5LockOps lists the calls of root function f that lock / unlock the
// mutex embedded in the OpenChannel whose canonical form is base.  deferred
// calls are returned separately.
func c06f5LockOps(f *an.Func, base string) (locks, unlocks, deferredUnlocks []an.Site) {
	for _, s := range f.AllCalls(false) {
		c := s.Node.(*ast.CallExpr)
		id := an.CalleeID(f.Info(), c)
		if id != "sync.RWMutex.Lock" && id != "sync.RWMutex.Unlock" {
			continue
		}
		sel, ok := ast.Unparen(c.Fun).(*ast.SelectorExpr)
		if !ok || f.Canon(sel.X) != base || an.TypeID(f.Info().TypeOf(sel.X)) != "chanstate.OpenChannel" {
			continue
		}
		switch {
		case strings.HasSuffix(id, ".Lock"):
			if s.V.Kind != flow.KDefer {
				locks = append(locks, s)
			}
		case s.V.Kind == flow.KDefer:
			deferredUnlocks = append(deferredUnlocks, s)
		default:
			unlocks = append(unlocks, s)
		}
	}
	return
}

// c06f5StoreMethod selects the calls of the method named name of one of the
// persistence interfaces of package chanstate (Store and the interfaces it
// embeds), i.e. the calls OpenChannel makes through its Db field.
func c06f5StoreMethod(name string) an.CallPred {
	return func(id string, _ *ast.CallExpr) bool {
		return strings.HasPrefix(id, "chanstate.") && strings.HasSuffix(id, "."+name) && !strings.HasPrefix(id, "chanstate.OpenChannel.")
	}
}

// c06f5HeldAt: the write lock of the OpenChannel `base` is held whenever the
// vertex of s executes: a Lock() of it is passed on every path to s, and s
// cannot be reached from an Unlock() of it that is not deferred.
func c06f5HeldAt(f *an.Func, s an.Site, base string) (bool, string) {
	locks, unlocks, _ := c06f5LockOps(f, base)
	if len(locks) == 0 {
		return false, "no " + base + ".Lock() in " + f.ID
	}
	if !f.Before(locks, s) {
		return false, "a path reaches it without passing " + base + ".Lock()"
	}
	for _, u := range unlocks {
		if u.V == s.V && u.Node.Pos() > s.Node.Pos() {
			continue
		}
		if f.Graph().Reach(u.V, nil, nil)[s.V] {
			return false, "it can be reached after " + base + ".Unlock() at " + u.Where()
		}
	}
	return true, ""
}

// c06f5RevocationStateLock (repair 3b9a88f): the in-memory revocation state of
// a live OpenChannel is exchanged as a whole by Refresh (under the channel's
// mutex).  A change of it that is made outside that mutex, or made under it
// but persisted in a later, separate critical section, can be replaced by the
// copy on disk in between: the next durable write then stores the new remote
// commitment next to a store that lacks the secret revoking the old one.
func c06f5RevocationStateLock(r *an.Run) {
	p := r.Prog
	r.Obl("revocation-state-changes-only-under-the-channel-lock", "LOCK",
		"every non-test write of OpenChannel.RevocationStore / RemoteCurrentRevocation / RemoteNextRevocation and every AddNextEntry on an OpenChannel's store, in lnwallet, chanstate, channeldb and contractcourt, is one of: (a) inside a method of OpenChannel on the receiver itself with the receiver's Lock() passed on every path and no non-deferred Unlock() before it; (b) inside a ChannelStateDB method M on its channel parameter, where every call of the Store interface's M is made by a method of OpenChannel that passes the receiver and holds its lock at the call; (c) a funding-time write to the reservation's partialState, which no other goroutine holds yet; the decoders reach the fields only through their address (ReadElements). In particular LightningChannel.ReceiveRevocation neither writes these fields nor adds to the store itself; inside OpenChannel.AdvanceCommitChainTailWithRevocation the store insertion, both rotations and the Db.AdvanceCommitChainTail call happen under one hold of the lock; OpenChannel.Refresh and every other caller of Store.RefreshChannel hold the same lock and pass the receiver",
		"Refresh swaps in the revocation state found on disk under the OpenChannel mutex; a store insertion or rotation outside it, or persisted under a later hold of it, can be undone in between while the remote chain still advances: the node then lacks the secret of a revoked commitment (or keeps a stale revocation point) durably", 12,
		func(o *an.Obl) {
			isRevField := func(fn *an.Func, e ast.Expr) (string, ast.Expr, bool) {
				sel, ok := e.(*ast.SelectorExpr)
				if !ok {
					return "", nil, false
				}
				for _, name := range c06f5RevFields {
					if an.Field("chanstate.OpenChannel", name, nil)(fn, sel) {
						return name, sel.X, true
					}
				}
				return "", nil, false
			}
			// the calls of a Store interface method made by chanstate: each by
			// an OpenChannel method on its receiver, with the lock held
			backendUnderLock := func(method string, s an.Site, reportAt string) {
				n := 0
				for _, cf := range p.Funcs(false) {
					for _, cs := range cf.Calls(c06f5StoreMethod(method), true) {
						n++
						root := cf.Root()
						a := root.ArgCanon(cs)
						recv := root.Recv()
						if recv == nil || an.TypeID(recv.Type()) != "chanstate.OpenChannel" || len(a) == 0 || a[0] != "$recv" {
							o.FailAt(reportAt+"<-"+root.ID, cs.Where(), "%s calls Store.%s(%v): the channel's revocation state is written by that call outside a method of the channel that could hold its lock", root.ID, method, a)
							continue
						}
						held, why := c06f5HeldAt(root, cs, "$recv")
						o.Site("%s: Store.%s($recv, …) with the receiver's lock held: %v", root.ID, method, held)
						if !held {
							o.FailAt(reportAt+"<-"+root.ID+"#unlocked", cs.Where(), "%s calls Store.%s, which changes the channel's revocation state, without holding the channel's lock: %s", root.ID, method, why)
						}
					}
				}
				if n == 0 {
					o.FailAt(reportAt+"#no-caller", s.Where(), "no call of Store.%s found: cannot tell under which lock %s runs", method, reportAt)
				}
				// the concrete method is not called around the interface
				for _, ref := range p.RefsTo(p.Method("channeldb", "ChannelStateDB", method), false) {
					id := "<package-level>"
					if ref.Fn != nil {
						id = ref.Fn.Root().ID
					}
					o.FailAt(reportAt+"<-direct-"+id, ref.Where, "%s refers to ChannelStateDB.%s directly, around the OpenChannel method that holds the lock", id, method)
				}
			}
			nWrites := 0
			seenBackend := map[string]bool{}
			classify := func(fn *an.Func, s an.Site, field string, base ast.Expr, what string) {
				nWrites++
				root := fn.Root()
				bc := root.Canon(base)
				key := root.ID + "#" + what + "-" + field
				switch {
				case root.Recv() != nil && an.TypeID(root.Recv().Type()) == "chanstate.OpenChannel" && an.Short(root.Pkg.PkgPath) == "chanstate":
					if bc != "$recv" {
						o.FailAt(key+"-foreign-channel", s.Where(), "%s %ss %s of %s, a channel whose lock it does not hold", root.ID, what, field, bc)
						return
					}
					held, why := c06f5HeldAt(root, s, "$recv")
					o.Site("%s: %s of %s under the receiver's lock: %v", root.ID, what, field, held)
					if !held {
						o.FailAt(key+"-unlocked", s.Where(), "%s %ss %s without holding the channel's lock: %s", root.ID, what, field, why)
					}
				case root.Recv() != nil && an.TypeID(root.Recv().Type()) == "channeldb.ChannelStateDB" && root.Obj != nil:
					isParam := false
					for _, prm := range root.Params(false) {
						if id, ok := an.Strip(root.Info(), base).(*ast.Ident); ok && root.Info().Uses[id] == prm && an.TypeID(prm.Type()) == "chanstate.OpenChannel" {
							isParam = true
						}
					}
					if !isParam {
						o.FailAt(key+"-not-the-parameter", s.Where(), "%s %ss %s of %s, which is not its channel parameter", root.ID, what, field, bc)
						return
					}
					o.Site("%s: %s of %s of its channel parameter (backend of OpenChannel.%s)", root.ID, what, field, root.Obj.Name())
					if !seenBackend[root.Obj.Name()] {
						seenBackend[root.Obj.Name()] = true
						backendUnderLock(root.Obj.Name(), s, root.ID)
					}
				case an.Short(root.Pkg.PkgPath) == "lnwallet" && root.Recv() != nil && an.TypeID(root.Recv().Type()) == "lnwallet.LightningWallet" && reMatch(`\.partialState$`, bc):
					o.Site("%s: funding-time %s of %s on the reservation's partialState (%s)", root.ID, what, field, bc)
				default:
					o.FailAt(key, s.Where(), "%s %ss %s of %s outside the channel's lock: only methods of OpenChannel holding c.Lock(), their ChannelStateDB backends and the funding flow (partialState) may change the revocation state", root.ID, what, field, bc)
				}
			}
			for _, fn := range p.Funcs(false, "lnwallet", "chanstate", "channeldb", "contractcourt") {
				if fn.Lit != nil {
					continue
				}
				for _, s := range fn.Assigns(func(f *an.Func, e ast.Expr) bool { _, _, ok := isRevField(f, e); return ok }, true) {
					var lhs []ast.Expr
					switch st := s.Node.(type) {
					case *ast.AssignStmt:
						lhs = st.Lhs
					case *ast.IncDecStmt:
						lhs = []ast.Expr{st.X}
					}
					for _, l := range lhs {
						if name, base, ok := isRevField(fn, an.Strip(fn.Info(), l)); ok {
							classify(fn, s, name, base, "write")
						}
					}
				}
				for _, s := range fn.Calls(an.CalleeNamed("AddNextEntry"), true) {
					sel, ok := ast.Unparen(s.Node.(*ast.CallExpr).Fun).(*ast.SelectorExpr)
					if !ok {
						continue
					}
					if name, base, ok := isRevField(fn, an.Strip(fn.Info(), sel.X)); ok {
						classify(fn, s, name, base, "store insertion")
					} else if an.Short(fn.Pkg.PkgPath) != "shachain" {
						// a store reached through a local: which channel's?
						o.FailAt(fn.ID+"#store-insertion-through-alias", s.Where(), "%s adds a secret to %s, a revocation store not addressed as a field of its channel: the lock rule cannot tell whose it is", fn.ID, fn.Canon(sel.X))
					}
				}
			}
			if nWrites < 6 {
				o.FailAt("revocation-state#writes", "", "expected at least 6 writes of the revocation state (store insertion and two rotations in chanstate, InsertNextRevocation, funding flow), found %d", nWrites)
			}

			// one hold of the lock for the whole step
			m := p.Func("chanstate.OpenChannel.AdvanceCommitChainTailWithRevocation")
			locks, unlocks, deferred := c06f5LockOps(m, "$recv")
			o.Site("%s: %d Lock, %d Unlock, %d deferred Unlock", m.ID, len(locks), len(unlocks), len(deferred))
			if len(locks) != 1 || len(unlocks) != 0 || len(deferred) != 1 {
				o.FailAt(m.ID+"#one-critical-section", m.Where(m.Body.Pos()), "expected one c.Lock() and one deferred c.Unlock() in AdvanceCommitChainTailWithRevocation (store insertion, rotation and durable advance in one critical section), found %d Lock, %d Unlock and %d deferred Unlock", len(locks), len(unlocks), len(deferred))
			}
			for _, s := range m.Calls(an.CalleeNamed("AdvanceCommitChainTail"), true) {
				held, why := c06f5HeldAt(m, s, "$recv")
				o.Site("%s: durable advance under the receiver's lock: %v", m.ID, held)
				if !held {
					o.FailAt(m.ID+"#durable-advance-unlocked", s.Where(), "the durable advance happens outside the hold of the lock under which the store and the points were changed: %s", why)
				}
			}

			// the refresh side
			nRefresh := 0
			for _, cf := range p.Funcs(false) {
				for _, cs := range cf.Calls(c06f5StoreMethod("RefreshChannel"), true) {
					nRefresh++
					root := cf.Root()
					a := root.ArgCanon(cs)
					held, why := false, "not a method of OpenChannel on its receiver"
					if root.Recv() != nil && an.TypeID(root.Recv().Type()) == "chanstate.OpenChannel" && len(a) == 1 && a[0] == "$recv" {
						held, why = c06f5HeldAt(root, cs, "$recv")
					}
					o.Site("%s: Store.RefreshChannel(%v) under the channel's lock: %v", root.ID, a, held)
					if !held {
						o.FailAt(root.ID+"#refresh-unlocked", cs.Where(), "%s replaces the channel's in-memory state by the copy on disk without holding the channel's lock: %s", root.ID, why)
					}
				}
			}
			if nRefresh == 0 {
				o.FailAt("chanstate.OpenChannel.Refresh#anchor", "", "no call of Store.RefreshChannel found")
			}
		})
}

// c06f5RevokedCommitmentLeavesTheChain (seeded change C06/g):
// RevokeCurrentCommitment releases the secret of the local chain's tail and
// then persists "the tail".  That the persisted commitment is a newer one
// rests on advanceTail having removed the old tail in between, whatever the
// chain holds.
func c06f5RevokedCommitmentLeavesTheChain(r *an.Run) {
	p := r.Prog
	r.Obl("revoked-commitment-leaves-the-chain-before-the-tail-is-persisted", "PATH",
		"RevokeCurrentCommitment hands UpdateCommitment the disk form of commitChains.Local.tail(), read after its one advanceTail() call on that same chain, which no condition of its own guards; commitmentChain.advanceTail removes the front element of the receiver's list on every path (no early return); tail() reads the front of the same list",
		"the secret released is that of the commitment at the tail before the call; if advanceTail can leave the chain as it is, the commitment made durable (and broadcast after a restart) is the very one whose secret the peer now holds", 9,
		func(o *an.Obl) {
			f := p.Func(lw + "LightningChannel.RevokeCurrentCommitment")
			const chain = "$recv.commitChains.Local"
			upd := f.Calls(an.CalleeIs("chanstate.OpenChannel.UpdateCommitment"), false)
			adv := f.Calls(an.CalleeIs(lw+"commitmentChain.advanceTail"), true)
			if !needExactly(o, f, "UpdateCommitment", upd, 1) || !needExactly(o, f, "advanceTail", adv, 1) {
				return
			}
			recvOf := func(fn *an.Func, s an.Site) string {
				if sel, ok := ast.Unparen(s.Node.(*ast.CallExpr).Fun).(*ast.SelectorExpr); ok {
					return fn.Canon(sel.X)
				}
				return ""
			}
			if c := recvOf(f, adv[0]); c != chain {
				o.FailAt(f.ID+"#advanced-chain", adv[0].Where(), "advanceTail is called on %s, expected the local chain", c)
			}
			if a := f.ArgCanon(upd[0]); a[0] != "&"+chain+".tail().toDiskCommit(lntypes.Local)" && a[0] != chain+".tail().toDiskCommit(lntypes.Local)" {
				o.FailAt(f.ID+"#persisted-commitment", upd[0].Where(), "UpdateCommitment receives %s, expected the disk form of the local chain's tail", a[0])
			}
			// the tail() whose value is persisted is evaluated after advanceTail
			var tails []an.Site
			for _, s := range f.Calls(an.CalleeIs(lw+"commitmentChain.tail"), false) {
				if recvOf(f, s) != chain {
					continue
				}
				// the one that defines the persisted commitment: used by an
				// assignment, not inside the trace statement
				if _, isAssign := s.V.Node.(*ast.AssignStmt); isAssign {
					tails = append(tails, s)
				}
			}
			if needExactly(o, f, "assignment from commitChains.Local.tail()", tails, 1) {
				before(o, f, "advanceTail", adv, "the read of the new tail", tails)
				before(o, f, "the read of the new tail", tails, "UpdateCommitment", upd)
				if f.Graph().Reach(tails[0].V, nil, nil)[adv[0].V] {
					o.FailAt(f.ID+"#tail-read-before-advance", tails[0].Where(), "the tail that is persisted can be read before advanceTail ran")
				}
			}
			onlyGuards(o, f, adv[0], []string{`^!\(err != nil\)$`}, "advanceTail")
			// advanceTail itself
			g := p.Func(lw + "commitmentChain.advanceTail")
			rm := g.Calls(an.CalleeNamed("Remove"), false)
			if needExactly(o, g, "Remove", rm, 1) {
				if c, a := recvOf(g, rm[0]), g.ArgCanon(rm[0]); c != "$recv.commitments" || len(a) != 1 || a[0] != "$recv.commitments.Front()" {
					o.FailAt(g.ID+"#removed-element", rm[0].Where(), "advanceTail removes %v from %s, expected the front of the receiver's list", a, c)
				}
				mustDoUnless(o, g, "the removal of the front element", rm, g.Returns())
				if gs := g.GuardsAt(rm[0]); len(gs) > 0 {
					o.FailAt(g.ID+"#conditional-removal", rm[0].Where(), "advanceTail removes the revoked commitment only under %v", gs)
				}
			}
			t := p.Func(lw + "commitmentChain.tail")
			for _, s := range t.Returns() {
				rs, ok := s.Node.(*ast.ReturnStmt)
				if !ok || len(rs.Results) != 1 {
					continue
				}
				c := t.Canon(rs.Results[0])
				o.Site("%s returns %s", t.ID, c)
				if c != "$recv.commitments.Front().Value" {
					o.FailAt(t.ID+"#tail-is-front", s.Where(), "tail() returns %s, expected the front element of the list advanceTail shortens", c)
				}
			}
		})
}
