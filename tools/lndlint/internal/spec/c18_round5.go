package spec

import (
	"go/ast"
	"go/constant"
	"go/token"
	"go/types"

	"lndlint/internal/an"
)

func init() { specExtras["C18"] = append(specExtras["C18"], c18r5Rules) }

// c18r5Rules: round-5 seed i (the publisher's transactions pay the CPFP
// deficit of unconfirmed parents on top of the rate of the fee function).
func c18r5Rules(r *an.Run) {
	p := r.Prog

	r.Obl("fee-of-a-published-sweep-is-the-offered-rate-times-its-own-weight", "WHO",
		"every call of weightEstimator.fee / feeWithParent in package sweep is made on a local defined once as result 1 of getWeightEstimate; feeWithParent (rate x (own + unconfirmed parents' weight) - parents' fee, clamped to the max fee rate only when the estimator has one) is called only where that getWeightEstimate call is given a max fee rate that is not the constant 0; prepareSweepTx, which builds every transaction of the TxPublisher, defines the fee it subtracts and reports as fee() of the estimator it built with its fee rate parameter and max fee rate 0, and writes it otherwise only by adding the dust leftover",
		"the fee function, MaxFeeRateAllowed = min(budget/size, MaxFeeRate) and the rate reported in the BumpResult speak about the rate of the sweeping transaction itself; a fee that also covers a low-fee unconfirmed parent (the CPFP anchor sweep) with no clamp pays a rate above the configured maximum or runs over the budget before the ceiling, so the ceiling is never offered", 4,
		func(o *an.Obl) {
			estOf := func(f *an.Func, call *ast.CallExpr) *ast.CallExpr {
				sel, ok := ast.Unparen(call.Fun).(*ast.SelectorExpr)
				if !ok {
					return nil
				}
				id, ok := ast.Unparen(sel.X).(*ast.Ident)
				if !ok {
					return nil
				}
				def, idx := f.UniqueCallDef(id)
				if def == nil || idx != 1 || an.CalleeID(f.Info(), def) != sw+"getWeightEstimate" || len(def.Args) != 5 {
					return nil
				}
				return def
			}
			isZero := func(f *an.Func, e ast.Expr) bool {
				tv, ok := f.Info().Types[e]
				if !ok || tv.Value == nil {
					return false
				}
				return constant.Sign(tv.Value) == 0
			}
			nFee, nParent := 0, 0
			for _, f := range p.Funcs(false, "sweep") {
				for _, s := range f.Calls(an.CalleeIs(sw+"weightEstimator.fee", sw+"weightEstimator.feeWithParent"), false) {
					call := s.Node.(*ast.CallExpr)
					parent := an.CalleeID(f.Info(), call) == sw+"weightEstimator.feeWithParent"
					def := estOf(f, call)
					if def == nil {
						o.FailAt(f.ID+"#fee-of-unknown-estimator", s.Where(), "%s: the estimator is not a local defined once by getWeightEstimate; cannot tell whether it has a max fee rate", s.String())
						continue
					}
					rate, max := f.Canon(def.Args[2]), f.Canon(def.Args[3])
					o.Site("%s on getWeightEstimate(rate=%s, max=%s)", s.String(), rate, max)
					if parent {
						nParent++
						if isZero(f, def.Args[3]) {
							o.FailAt(f.ID+"#parent-fee-without-max-fee-rate", s.Where(), "%s takes the fee from feeWithParent of an estimator built with max fee rate 0: the deficit of unconfirmed parents is added to rate x own weight and nothing clamps it, the transaction pays more than the offered rate %s; the sibling fee() is the fee at that rate", f.ID, rate)
						}
					} else {
						nFee++
					}
				}
			}
			if nFee < 1 || nParent < 1 {
				o.FailAt("sweep#fee-calls", "", "expected prepareSweepTx's fee() and the wallet sweep's feeWithParent(), found %d and %d", nFee, nParent)
			}

			// the publisher's builder
			g := p.Func(sw + "prepareSweepTx")
			est := g.Calls(an.CalleeIs(sw+"getWeightEstimate"), false)
			if !needExactly(o, g, "getWeightEstimate", est, 1) {
				return
			}
			def := est[0].Node.(*ast.CallExpr)
			if a := g.ArgCanon(est[0]); len(a) != 5 || a[2] != "$p2" || !isZero(g, def.Args[3]) {
				o.FailAt(g.ID+"#estimator-rate", est[0].Where(), "prepareSweepTx builds its estimator with (rate, max) = (%s, %s), expected its fee rate parameter and 0 (the rate is managed by the fee function)", a[2], a[3])
			}
			// the reported fee: result 0 of every successful return is one local
			feeObj := map[types.Object]bool{}
			nDef := 0
			for _, s := range g.SuccessReturns() {
				rs, ok := s.Node.(*ast.ReturnStmt)
				if !ok || len(rs.Results) == 0 {
					continue
				}
				id, ok := ast.Unparen(rs.Results[0]).(*ast.Ident)
				if !ok {
					continue
				}
				obj := c17ObjOfIdent(g, id)
				if obj == nil || feeObj[obj] {
					continue
				}
				feeObj[obj] = true
				for _, w := range c17WritesOf(g, obj) {
					switch {
					case w.Tok == token.ADD_ASSIGN:
						// the dust leftover (obligation leftover-…)
					case w.Whole && !w.Tuple && w.Rhs != nil:
						nDef++
						call, _ := ast.Unparen(w.Rhs).(*ast.CallExpr)
						ok := call != nil && an.CalleeID(g.Info(), call) == sw+"weightEstimator.fee" && estOf(g, call) == def
						o.Site("prepareSweepTx defines the reported fee as %s", g.Canon(w.Rhs))
						if !ok {
							o.FailAt(g.ID+"#fee-definition", g.Where(w.Node.Pos()), "prepareSweepTx defines the fee it subtracts from the inputs and reports as %s, expected fee() of the estimator built by its getWeightEstimate call (offered rate x weight of this transaction)", an.Text(w.Rhs))
						}
					default:
						o.FailAt(g.ID+"#fee-write", g.Where(w.Node.Pos()), "unexpected write of the reported fee: %s", an.Text(w.Node))
					}
				}
			}
			if nDef != 1 {
				o.FailAt(g.ID+"#fee-definitions", g.Where(g.Body.Pos()), "expected one definition of the fee prepareSweepTx reports, found %d", nDef)
			}
		})
}
