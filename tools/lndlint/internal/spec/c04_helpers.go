package spec

import (
	"go/ast"
	"go/token"
	"go/types"

	"lndlint/internal/an"
)

// c04Overwrites lists the statements of the root function of f (closures
// included) that assign to obj after its definition: `=`, `op=`, `++`/`--`
// and `for obj = range`.  A `:=` that introduces obj is its definition, not an
// overwrite.
func c04Overwrites(f *an.Func, obj types.Object) []ast.Node {
	root := f.Root()
	info := root.Info()
	var out []ast.Node
	is := func(e ast.Expr) bool {
		id, ok := ast.Unparen(e).(*ast.Ident)
		return ok && obj != nil && info.Uses[id] == obj
	}
	ast.Inspect(root.Body, func(n ast.Node) bool {
		switch x := n.(type) {
		case *ast.AssignStmt:
			for _, l := range x.Lhs {
				if is(l) {
					out = append(out, x)
					break
				}
			}
		case *ast.IncDecStmt:
			if is(x.X) {
				out = append(out, x)
			}
		case *ast.RangeStmt:
			if x.Tok == token.ASSIGN && (x.Key != nil && is(x.Key) || x.Value != nil && is(x.Value)) {
				out = append(out, x)
			}
		}
		return true
	})
	return out
}

// c04FixedBinding reports whether obj is a variable whose canonical form does not
// depend on its assignments: a parameter or receiver ($pN, $lit.pN, $recv) or
// a range variable ($elem, $key) of f or of an enclosing function.
func c04FixedBinding(f *an.Func, obj types.Object) bool {
	v, ok := obj.(*types.Var)
	if !ok || v.IsField() {
		return false
	}
	for fn := f; fn != nil; fn = fn.Parent {
		for _, p := range fn.Params(true) {
			if p == v {
				return true
			}
		}
	}
	found := false
	root := f.Root()
	ast.Inspect(root.Body, func(n ast.Node) bool {
		if rs, ok := n.(*ast.RangeStmt); ok && rs.Tok == token.DEFINE {
			for _, e := range []ast.Expr{rs.Key, rs.Value} {
				if id, ok := e.(*ast.Ident); ok && root.Info().Defs[id] == obj {
					found = true
				}
			}
		}
		return !found
	})
	return found
}

// c04OperandsNotOverwritten: the canonical form of e names parameters, the
// receiver and range variables by their binding, not by their value: `$p0`
// stays `$p0` after `height++`.  A rule that compares the canonical form of e
// therefore also needs every such variable mentioned by e (directly or through
// the unique definitions of the locals it uses) never to be overwritten in the
// function.  Locals need no check: a second assignment already turns their
// canonical form into `$v:<type>`.
func c04OperandsNotOverwritten(o *an.Obl, f *an.Func, e ast.Expr, what string) {
	info := f.Info()
	seen := map[types.Object]bool{}
	var walk func(x ast.Expr, depth int)
	walk = func(x ast.Expr, depth int) {
		if x == nil || depth > 5 {
			return
		}
		ast.Inspect(x, func(n ast.Node) bool {
			if _, isLit := n.(*ast.FuncLit); isLit {
				return false
			}
			id, ok := n.(*ast.Ident)
			if !ok {
				return true
			}
			obj := info.Uses[id]
			if obj == nil || seen[obj] {
				return true
			}
			seen[obj] = true
			if c04FixedBinding(f, obj) {
				for _, st := range c04Overwrites(f, obj) {
					o.FailAt(f.Root().ID+"#overwrites-"+id.Name, f.Where(st.Pos()), "%s: %s is identified by its binding (%s) but %s overwrites it: %s", what, id.Name, f.Canon(id), f.Root().ID, an.Text(st))
				}
				return true
			}
			if d := f.UniqueDef(id); d != nil {
				walk(d, depth+1)
			} else if c, _ := f.UniqueCallDef(id); c != nil {
				walk(c, depth+1)
			}
			return true
		})
	}
	walk(e, 0)
}

// c04FieldWritesBefore lists the writes (=, op=, ++/--) of a field named field of
// the struct type owner in f from which site can still be reached: a canonical
// form such as `$recv.currentHeight` names the field, not the value it had on
// entry.
func c04FieldWritesBefore(f *an.Func, owner, field string, site an.Site) []an.Site {
	var out []an.Site
	for _, w := range f.Assigns(an.Field(owner, field, nil), false) {
		if w.V == site.V {
			continue
		}
		if f.Graph().Reach(w.V, nil, nil)[site.V] {
			out = append(out, w)
		}
	}
	return out
}
