package brontide

// Probe B (property C11). Run:
//   go test -count=1 -run TestProbeBZeroLengthMessageConnRead -v ./brontide/
//
// Suspicion: Conn.Read (conn.go) reports (0, io.EOF) for a valid, authenticated
// zero-length message on a live connection: ReadMessage returns an empty
// plaintext, writing nothing leaves readBuf empty and bytes.Buffer.Read of an
// empty buffer returns io.EOF. A reader of the net.Conn takes this for the end
// of the stream although the messages behind the empty one are intact.
//
// Observed on the unmodified tree:
//   first Read after empty message: n=0 err=EOF
//
// The message oriented ReadNextMessage handles the empty message properly
// (second half of the probe), only the stream view is affected.

import (
	"testing"

	"github.com/stretchr/testify/require"
)

func TestProbeBZeroLengthMessageConnRead(t *testing.T) {
	localConn, remoteConn, err := establishTestConnection(t)
	require.NoError(t, err)

	// A zero-length record is a legal BOLT-8 message (0..65535 bytes).
	n, err := localConn.Write([]byte{})
	require.NoError(t, err)
	require.Zero(t, n)

	msg := []byte("after-empty")
	_, err = localConn.Write(msg)
	require.NoError(t, err)

	// Stream view: the empty record contributes no bytes, the bytes of
	// the next message follow without any error.
	buf := make([]byte, 64)
	var got []byte
	for len(got) < len(msg) {
		n, err = remoteConn.Read(buf)
		t.Logf("Read after empty message: n=%d err=%v", n, err)
		require.NoError(t, err, "Conn.Read reports an error for a "+
			"valid, authenticated zero-length message although "+
			"the connection is alive")
		got = append(got, buf[:n]...)
	}
	require.Equal(t, msg, got)

	// Message view: the empty message is delivered as such, in order.
	_, err = localConn.Write([]byte{})
	require.NoError(t, err)
	_, err = localConn.Write(msg)
	require.NoError(t, err)

	m, err := remoteConn.(*Conn).ReadNextMessage()
	require.NoError(t, err)
	require.Empty(t, m)
	m, err = remoteConn.(*Conn).ReadNextMessage()
	require.NoError(t, err)
	require.Equal(t, msg, m)
}
