package spec

import (
	"go/ast"
	"go/types"
	"sort"
	"strings"

	"lndlint/internal/an"
)

// c01RestoreConvertersAgree: the three converters that rebuild update-log
// entries from persisted LogUpdates (logUpdateToPayDesc for the pending remote
// commitment, localLogUpdateToPayDesc for our revoked-but-unsigned updates,
// remoteLogUpdateToPayDesc for the peer's acked-but-unsigned updates) fill,
// per update kind, the same paymentDescriptor fields from the same sources.
// The only difference is the side of the commit heights they record.
func c01RestoreConvertersAgree(r *an.Run) {
	p := r.Prog
	r.Obl("restore-converters-agree", "MIRROR",
		"logUpdateToPayDesc, localLogUpdateToPayDesc and remoteLogUpdateToPayDesc build, for every wire update kind (case of their type switch), exactly one paymentDescriptor literal; for one kind the literals of the three converters set the same fields from the same sources (canonical forms), except that the commit heights are recorded for the Remote side in logUpdateToPayDesc and localLogUpdateToPayDesc and for the Local side in remoteLogUpdateToPayDesc; an add carries the add height, a settle / fail / malformed fail the remove height, a fee update both, each equal to the commitHeight parameter; an add's entry type is re-derived through entryTypeForHtlc in every converter that restores adds",
		"a restored settle/fail without the HTLC amount credits nothing when the view is evaluated, and a restored update without its commit height is applied a second time to the commitment chain that already contains it: both sides then disagree on the balances of the next commitment", 12,
		func(o *an.Obl) {
			type conv struct {
				name string
				side string // side of the height fields
			}
			convs := []conv{
				{"logUpdateToPayDesc", "Remote"},
				{"localLogUpdateToPayDesc", "Remote"},
				{"remoteLogUpdateToPayDesc", "Local"},
			}
			// kind -> converter -> field -> canonical source
			table := map[string]map[string]map[string]string{}
			where := map[string]map[string]string{}
			var kinds []string
			for _, c := range convs {
				f := p.Func(lw + "LightningChannel." + c.name)
				tl, clauses := f.TypeSwitchCases()
				if len(clauses) == 0 {
					o.FailAt(f.ID+"#type-switch", f.Where(f.Body.Pos()), "%s has no type switch over the wire message", c.name)
					continue
				}
				for i, cl := range clauses {
					if len(tl[i]) != 1 {
						o.FailAt(f.ID+"#case-shape", f.Where(cl.Pos()), "%s: a case lists %d message types; the rule compares one literal per kind", c.name, len(tl[i]))
						continue
					}
					kind := an.TypeID(tl[i][0])
					fields, ok := c01ConverterArm(o, f, cl, kind)
					if !ok {
						continue
					}
					// the height fields: side and value
					for k, v := range fields {
						if !strings.Contains(k, "CommitHeights") {
							continue
						}
						if !strings.HasSuffix(k, "."+c.side) {
							o.FailAt(f.ID+"#"+kind+"-height-side", f.Where(cl.Pos()), "%s, case %s: sets %s; this converter restores heights of the %s commitment chain only", c.name, kind, k, c.side)
						}
						if !reMatch(`^\$p\d+$`, v) {
							o.FailAt(f.ID+"#"+kind+"-height-source", f.Where(cl.Pos()), "%s, case %s: %s = %s is not the commit height parameter", c.name, kind, k, v)
						}
					}
					var need []string
					switch {
					case strings.HasSuffix(kind, "UpdateAddHTLC"):
						need = []string{"addCommitHeights"}
					case strings.HasSuffix(kind, "UpdateFee"):
						need = []string{"addCommitHeights", "removeCommitHeights"}
					default:
						need = []string{"removeCommitHeights"}
					}
					for _, n := range []string{"addCommitHeights", "removeCommitHeights"} {
						_, has := fields[n+"."+c.side]
						wanted := false
						for _, w := range need {
							wanted = wanted || w == n
						}
						switch {
						case wanted && !has:
							o.FailAt(f.ID+"#"+kind+"-missing-"+n, f.Where(cl.Pos()), "%s, case %s: the restored entry does not record %s.%s; the update would be applied to that chain a second time", c.name, kind, n, c.side)
						case !wanted && has:
							o.FailAt(f.ID+"#"+kind+"-extra-"+n, f.Where(cl.Pos()), "%s, case %s: the restored entry records %s.%s, which this kind of update does not carry", c.name, kind, n, c.side)
						}
					}
					if table[kind] == nil {
						table[kind] = map[string]map[string]string{}
						where[kind] = map[string]string{}
						kinds = append(kinds, kind)
					}
					// normalise the side for the comparison
					norm := map[string]string{}
					for k, v := range fields {
						if strings.Contains(k, "CommitHeights.") {
							k = k[:strings.Index(k, ".")] + ".$side"
						}
						norm[k] = v
					}
					table[kind][c.name] = norm
					where[kind][c.name] = f.Where(cl.Pos())
					o.Site("%s case %s sets %s", c.name, kind, c01KvString(norm))
				}
			}
			sort.Strings(kinds)
			if len(kinds) < 5 {
				o.FailAt("restore-converters#kinds", "", "expected the five wire update kinds in the converters, found %v", kinds)
			}
			// fields that only one converter fills, with the reason
			onlyIn := map[string]string{
				"logUpdateToPayDesc::=theirPkScript":      "only the adds of the pending remote commitment need their script now (the other converters' adds get it when the commitment is signed)",
				"logUpdateToPayDesc::=theirWitnessScript": "as above",
			}
			for _, kind := range kinds {
				byConv := table[kind]
				if len(byConv) < 2 {
					o.FailAt("restore-converters#"+kind+"-single", "", "update kind %s is restored by one converter only (%v)", kind, byConv)
					continue
				}
				var names []string
				for n := range byConv {
					names = append(names, n)
				}
				sort.Strings(names)
				ref := names[0]
				for _, n := range names[1:] {
					keys := map[string]bool{}
					for k := range byConv[ref] {
						keys[k] = true
					}
					for k := range byConv[n] {
						keys[k] = true
					}
					for k := range keys {
						a, inA := byConv[ref][k]
						b, inB := byConv[n][k]
						if _, ok := onlyIn[ref+":"+k]; ok && !inB {
							continue
						}
						if _, ok := onlyIn[n+":"+k]; ok && !inA {
							continue
						}
						switch {
						case inA && !inB:
							o.FailAt(lw+"LightningChannel."+n+"#"+kind+"-missing-"+k, where[kind][n], "case %s: %s sets %s (= %s) but %s does not", kind, ref, k, a, n)
						case !inA && inB:
							o.FailAt(lw+"LightningChannel."+ref+"#"+kind+"-missing-"+k, where[kind][ref], "case %s: %s sets %s (= %s) but %s does not", kind, n, k, b, ref)
						case a != b:
							o.FailAt(lw+"LightningChannel."+n+"#"+kind+"-source-"+k, where[kind][n], "case %s: field %s is %s in %s but %s in %s", kind, k, a, ref, b, n)
						}
					}
				}
			}
		})
}

func c01KvString(m map[string]string) string {
	var ks []string
	for k := range m {
		ks = append(ks, k)
	}
	sort.Strings(ks)
	var parts []string
	for _, k := range ks {
		parts = append(parts, k+"="+m[k])
	}
	return strings.Join(parts, "; ")
}

// c01ConverterArm reads one case clause of a converter: the single
// paymentDescriptor literal (field -> canonical value; the two height fields
// are flattened to name.Side) and the assignments `pd.F = v` to the variable
// holding the literal (recorded as ":=F").
func c01ConverterArm(o *an.Obl, f *an.Func, cl *ast.CaseClause, kind string) (map[string]string, bool) {
	info := f.Info()
	var lits []*ast.CompositeLit
	for _, st := range cl.Body {
		ast.Inspect(st, func(n ast.Node) bool {
			if c, ok := n.(*ast.CompositeLit); ok && an.TypeID(info.TypeOf(c)) == lw+"paymentDescriptor" {
				lits = append(lits, c)
				return false
			}
			return true
		})
	}
	if len(lits) != 1 {
		o.FailAt(f.ID+"#"+kind+"-literals", f.Where(cl.Pos()), "%s, case %s: expected exactly one paymentDescriptor literal, found %d", f.ID, kind, len(lits))
		return nil, false
	}
	fields := map[string]string{}
	for _, el := range lits[0].Elts {
		kv, ok := el.(*ast.KeyValueExpr)
		if !ok {
			o.FailAt(f.ID+"#"+kind+"-positional", f.Where(el.Pos()), "%s, case %s: positional paymentDescriptor literal", f.ID, kind)
			return nil, false
		}
		key := an.Text(kv.Key)
		if strings.HasSuffix(key, "CommitHeights") {
			inner, isLit := ast.Unparen(kv.Value).(*ast.CompositeLit)
			if !isLit {
				fields[key+".?"] = f.Canon(kv.Value)
				continue
			}
			for _, iel := range inner.Elts {
				ikv, ok := iel.(*ast.KeyValueExpr)
				if !ok {
					fields[key+".?"] = f.Canon(iel)
					continue
				}
				fields[key+"."+an.Text(ikv.Key)] = f.Canon(ikv.Value)
			}
			continue
		}
		fields[key] = f.Canon(kv.Value)
	}
	// the variable the literal is bound to, and later writes to its fields
	var pdObj types.Object
	for _, st := range cl.Body {
		ast.Inspect(st, func(n ast.Node) bool {
			as, ok := n.(*ast.AssignStmt)
			if !ok || len(as.Lhs) != 1 || len(as.Rhs) != 1 {
				return true
			}
			u, isAddr := ast.Unparen(as.Rhs[0]).(*ast.UnaryExpr)
			if !isAddr || ast.Unparen(u.X) != ast.Expr(lits[0]) {
				return true
			}
			if id, ok := as.Lhs[0].(*ast.Ident); ok {
				pdObj = info.Defs[id]
				if pdObj == nil {
					pdObj = info.Uses[id]
				}
			}
			return true
		})
	}
	if pdObj == nil {
		return fields, true
	}
	var canonPd func(e ast.Expr) string
	canonPd = func(e ast.Expr) string {
		switch x := ast.Unparen(e).(type) {
		case *ast.Ident:
			if info.Uses[x] == pdObj {
				return "$pd"
			}
		case *ast.SelectorExpr:
			if id, ok := ast.Unparen(x.X).(*ast.Ident); ok && info.Uses[id] == pdObj {
				return "$pd." + x.Sel.Name
			}
		case *ast.CallExpr:
			var args []string
			for _, a := range x.Args {
				args = append(args, canonPd(a))
			}
			fun := an.CalleeID(info, x)
			if fun == "" {
				fun = f.Canon(x.Fun)
			}
			return fun + "(" + strings.Join(args, ", ") + ")"
		}
		return f.Canon(e)
	}
	for _, st := range cl.Body {
		ast.Inspect(st, func(n ast.Node) bool {
			as, ok := n.(*ast.AssignStmt)
			if !ok || len(as.Lhs) != len(as.Rhs) {
				return true
			}
			for i, l := range as.Lhs {
				sel, ok := ast.Unparen(l).(*ast.SelectorExpr)
				if !ok {
					continue
				}
				if id, ok := ast.Unparen(sel.X).(*ast.Ident); ok && info.Uses[id] == pdObj {
					fields[":="+sel.Sel.Name] = canonPd(as.Rhs[i])
				}
			}
			return true
		})
	}
	return fields, true
}
