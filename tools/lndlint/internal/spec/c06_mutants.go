package spec

func init() {
	registry["C06"].Mutants = []Mutant{
		// store-bounded-by-type
		{Name: "store-height-raised-to-64", File: "shachain/element.go",
			Old: "	maxHeight uint8 = 48", New: "	maxHeight uint8 = 64",
			Expect: "store-bounded-by-type"},
		{Name: "buckets-become-a-slice", File: "shachain/store.go",
			Old: "	buckets [maxHeight + 1]element", New: "	buckets []element",
			Expect: "store-bounded-by-type"},

		// secret-stored-only-if-consistent
		{Name: "underivable-bucket-skipped", File: "shachain/store.go",
			Old: "		e, err := newElement.derive(store.buckets[i].index)\n		if err != nil {\n			return err\n		}", New: "		e, err := newElement.derive(store.buckets[i].index)\n		if err != nil {\n			continue\n		}",
			Expect: "secret-stored-only-if-consistent"},
		{Name: "bucket-equality-check-inverted", File: "shachain/store.go",
			Old: "		if !e.isEqual(&store.buckets[i]) {", New: "		if e.isEqual(&store.buckets[i]) {",
			Expect: "secret-stored-only-if-consistent"},
		{Name: "bucket-written-before-consistency-loop", File: "shachain/store.go",
			Old: "	bucket := countTrailingZeros(newElement.index)\n\n	for i := uint8(0); i < bucket; i++ {", New: "	bucket := countTrailingZeros(newElement.index)\n	store.buckets[bucket] = *newElement\n\n	for i := uint8(0); i < bucket; i++ {",
			Expect: "secret-stored-only-if-consistent"},
		{Name: "store-index-moves-by-two", File: "shachain/store.go",
			Old: "	store.index--", New: "	store.index -= 2",
			Expect: "secret-stored-only-if-consistent"},

		// no-narrowing-of-index-arithmetic
		{Name: "prefix-compared-on-32-bits", File: "shachain/element.go",
			Old: "	if uint64(from) != getPrefix(to, zeros) {", New: "	if uint32(from) != uint32(getPrefix(to, zeros)) {",
			Expect: "no-narrowing-of-index-arithmetic"},
		{Name: "new-index-truncates-height", File: "shachain/element.go",
			Old: "	return startIndex - index(v)", New: "	return startIndex - index(uint32(v))",
			Expect: "no-narrowing-of-index-arithmetic"},
		{Name: "bit-extracted-from-truncated-index", File: "shachain/utils.go",
			Old: "	return uint8((uint64(index) >> position) & 1)", New: "	return uint8((uint32(index) >> position) & 1)",
			Expect: "no-narrowing-of-index-arithmetic"},

		// store-and-producer-codec
		{Name: "store-encode-omits-next-index", File: "shachain/store.go",
			Old: "	return binary.Write(w, binary.BigEndian, store.index)", New: "	return nil",
			Expect: "store-and-producer-codec"},
		{Name: "store-encode-bucket-count-widened", File: "shachain/store.go",
			Old: "	err := binary.Write(w, binary.BigEndian, store.lenBuckets)", New: "	err := binary.Write(w, binary.BigEndian, uint16(store.lenBuckets))",
			Expect: "store-and-producer-codec"},
		{Name: "store-decode-skips-bucket-hash", File: "shachain/store.go",
			Old: "		if _, err := io.ReadFull(r, nextHash[:]); err != nil {\n			return nil, err\n		}\n", New: "",
			Expect: "store-and-producer-codec"},
		{Name: "restored-producer-at-start-index", File: "shachain/producer.go",
			Old: "			index: rootIndex,\n			hash:  *root,", New: "			index: startIndex,\n			hash:  *root,",
			Expect: "store-and-producer-codec"},

		// release-only-after-durable-commitment
		{Name: "revocation-released-despite-failed-write", File: "lnwallet/channel.go",
			Old: "		newCommitment, unsignedAckedUpdates,\n	)\n	if err != nil {\n		return nil, nil, nil, err\n	}\n", New: "		newCommitment, unsignedAckedUpdates,\n	)\n	if err != nil {\n		lc.log.Errorf(\"unable to persist commitment: %v\", err)\n	}\n",
			Expect: "release-only-after-durable-commitment"},
		{Name: "reconnect-releases-unrevoked-height", File: "lnwallet/channel.go",
			Old: "		heightToRetransmit := localTailHeight - 1\n		revocationMsg, err := lc.generateRevocation(heightToRetransmit)", New: "		heightToRetransmit := localTailHeight\n		revocationMsg, err := lc.generateRevocation(heightToRetransmit)",
			Expect: "release-only-after-durable-commitment"},

		// status-writers-use-disk-copy
		{Name: "confirmation-height-writes-memory-handle", File: "channeldb/channel.go",
			Old: "		diskChannel.ConfirmationHeight = height\n\n		return putOpenChannel(chanBucket, diskChannel)", New: "		diskChannel.ConfirmationHeight = height\n		channel.ConfirmationHeight = height\n\n		return putOpenChannel(chanBucket, channel)",
			Expect: "status-writers-use-disk-copy"},
		{Name: "status-update-writes-memory-handle", File: "channeldb/channel.go",
			Old: "		if err := putOpenChannel(chanBucket, diskChannel); err != nil {", New: "		if err := putOpenChannel(chanBucket, channel); err != nil {",
			Expect: "status-writers-use-disk-copy"},
	}
}
