package paymentsdb

import (
	"crypto/sha256"
	"math"
	"testing"

	"github.com/lightningnetwork/lnd/lnwire"
	"github.com/lightningnetwork/lnd/record"
	"github.com/stretchr/testify/require"
)

// Suspicion 1: uint64 wrap of sentAmt+amt in verifyAttempt and SentAmt. A
// shard whose amount makes the sum wrap around must be refused and the payment
// must stay as it was.
func TestZZProbe1AmountOverflow(t *testing.T) {
	for name, db := range zzSeedStores(t) {
		t.Run(name, func(t *testing.T) {
			ctx := t.Context()
			preimg := genPreimage(t)
			rhash := sha256.Sum256(preimg[:])
			info := genPaymentCreationInfo(t, rhash)
			hash := info.PaymentIdentifier
			require.NoError(t, db.InitPayment(ctx, hash, info))

			mpp := record.NewMPP(info.Value, [32]byte{1})
			a := genAttemptWithHash(t, 0, genSessionKey(t), rhash)
			a.Route.FinalHop().AmtToForward = info.Value / 2
			a.Route.FinalHop().MPP = mpp
			_, err := db.RegisterAttempt(ctx, hash, a)
			require.NoError(t, err)

			b := genAttemptWithHash(t, 1, genSessionKey(t), rhash)
			huge := lnwire.MilliSatoshi(math.MaxUint64) -
				info.Value/2 + 2
			b.Route.FinalHop().AmtToForward = huge
			b.Route.FinalHop().MPP = mpp
			_, err = db.RegisterAttempt(ctx, hash, b)
			require.ErrorIs(t, err, ErrValueExceedsAmt,
				"value=%d first shard=%d second shard=%d",
				info.Value, info.Value/2, huge)

			p, err := db.FetchPayment(ctx, hash)
			require.NoError(t, err)
			require.Len(t, p.HTLCs, 1)
			require.Equal(t, info.Value-info.Value/2,
				p.State.RemainingAmt)
		})
	}
}

// The backstop in setState must not wrap either: a payment whose stored
// attempts add up to more than 2^64-1 msat is reported as over-sent.
func TestZZProbe1SetStateOverflow(t *testing.T) {
	preimg := genPreimage(t)
	rhash := sha256.Sum256(preimg[:])
	info := genPaymentCreationInfo(t, rhash)

	a := genAttemptWithHash(t, 0, genSessionKey(t), rhash)
	a.Route.FinalHop().AmtToForward = info.Value / 2
	b := genAttemptWithHash(t, 1, genSessionKey(t), rhash)
	b.Route.FinalHop().AmtToForward = lnwire.MilliSatoshi(math.MaxUint64) -
		info.Value/2 + 2

	p := &MPPayment{
		Info: info,
		HTLCs: []HTLCAttempt{
			{HTLCAttemptInfo: *a}, {HTLCAttemptInfo: *b},
		},
	}
	require.ErrorIs(t, p.setState(), ErrSentExceedsTotal)
}
