package contractcourt

// Probe 4 (property C13, restart resumes from the recorded stage): both
// prepContractResolutions (StateContractClosed, also re-executed after a
// restart in that state) and relaunchResolvers (restart in
// StateWaitingFullResolution) tolerate FetchHistoricalChannel failing with
// ErrNoHistoricalBucket / ErrChannelNotFound: they log a warning and go on with
// chanState == nil. Every resolver is then supplemented under
// `if chanState != nil` -- except the anchor resolver, for which
// anchorResolver.SupplementState(chanState) is called unconditionally and
// dereferences the nil pointer (`c.chanType = state.ChanType`).
//
// In production this runs on the arbitrator's channelAttendant goroutine, so
// the panic takes the whole process down, on every start. The probe calls the
// two functions directly on the test goroutine so that the panic can be caught.
//
// Both sub-tests FAIL (panic) on the unmodified tree and pass with
// probe12-fix4.patch.

import (
	"testing"

	"github.com/btcsuite/btcd/chainhash/v2"
	"github.com/btcsuite/btcd/wire/v2"
	"github.com/lightningnetwork/lnd/channeldb"
	"github.com/lightningnetwork/lnd/chanstate"
	"github.com/lightningnetwork/lnd/fn/v2"
	"github.com/lightningnetwork/lnd/lnwallet"
	"github.com/stretchr/testify/require"
)

func TestProbeAnchorResolverNilChanState(t *testing.T) {
	for _, fetchErr := range []error{
		channeldb.ErrNoHistoricalBucket, channeldb.ErrChannelNotFound,
	} {
		// StateContractClosed: the resolvers are created.
		t.Run("prep/"+fetchErr.Error(), func(t *testing.T) {
			probeAnchorResolverNilChanState(t, fetchErr, false)
		})

		// Restart in StateWaitingFullResolution: the resolvers are
		// relaunched.
		t.Run("relaunch/"+fetchErr.Error(), func(t *testing.T) {
			probeAnchorResolverNilChanState(t, fetchErr, true)
		})
	}
}

func probeAnchorResolverNilChanState(t *testing.T, fetchErr error,
	relaunch bool) {

	withoutHistoricalChan := func(opts *testChanArbOpts) {
		opts.arbCfg.FetchHistoricalChannel = func() (
			*chanstate.OpenChannel, error) {

			return nil, fetchErr
		}
	}

	ctx, err := createTestChannelArbitrator(t, nil, withoutHistoricalChan)
	require.NoError(t, err)
	defer ctx.CleanUp()

	blog := ctx.log.(*testArbLog).ArbitratorLog

	commitHash := chainhash.Hash{0xcc}
	anchorSignDesc := testSignDesc
	anchorSignDesc.Output = &wire.TxOut{
		Value: 330, PkScript: testSignDesc.Output.PkScript,
	}
	resolutions := &ContractResolutions{
		CommitHash: commitHash,
		AnchorResolution: &lnwallet.AnchorResolution{
			AnchorSignDescriptor: anchorSignDesc,
			CommitAnchor: wire.OutPoint{
				Hash: commitHash, Index: 0,
			},
		},
	}
	commitSet := &CommitSet{
		ConfCommitKey: fn.Some(LocalHtlcSet),
		HtlcSets:      map[HtlcSetKey][]channeldb.HTLC{},
	}
	require.NoError(t, blog.LogContractResolutions(resolutions))
	require.NoError(t, blog.InsertConfirmedCommitSet(commitSet))

	if !relaunch {
		require.NotPanics(t, func() {
			resolvers, err := ctx.chanArb.prepContractResolutions(
				resolutions, 100, ChainActionMap{},
			)
			require.NoError(t, err)
			require.Len(t, resolvers, 1)
			require.IsType(t, &anchorResolver{}, resolvers[0])
		}, "prepContractResolutions without historical channel state")

		return
	}

	require.NotPanics(t, func() {
		err := ctx.chanArb.relaunchResolvers(commitSet, 100)
		require.NoError(t, err)
	}, "relaunchResolvers without historical channel state")

	// The anchor resolver was re-instantiated and launched: it offers the
	// anchor to the sweeper.
	<-ctx.sweeper.sweptInputs
}
