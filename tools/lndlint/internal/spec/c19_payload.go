package spec

import (
	"go/ast"
	"sort"
	"strings"

	"lndlint/internal/an"
)

// onionPayloadEstimate: "the onion payload fits" rests on three agreements
// that are visible in the code: Hop.PayloadSize counts exactly the records
// PackHopPayload writes; the final hop that pathfinding sizes carries every
// field newRoute will put on the real final hop; and the restrictions built
// for a payment hand lastHopPayloadSize every field it reads.
func onionPayloadEstimate(r *an.Run) {
	p := r.Prog
	rt := "routing/route."
	r.Obl("onion-payload-size-estimate", "MIRROR",
		"Hop.PayloadSize starts from zero, adds one record (type, length prefix, length) for every field under the same presence test PackHopPayload uses to append that field's record, sizes each from that same field, and finally adds the length prefix of the whole payload and the HMAC; lastHopPayloadSize sizes, in both of its branches, a hop that carries every final-hop-only field newRoute sets (MPP built from the payment total, custom records, metadata; for blinded paths the total amount record), and every RestrictParams literal built from a payment sets every field lastHopPayloadSize reads",
		"pathfinding admits a route when the estimated payloads fit 1300 bytes; an estimate that misses a record or sizes it from another field returns a route whose onion cannot be built", 24,
		func(o *an.Obl) {
			pack := p.Func(rt + "Hop.PackHopPayload")
			size := p.Func(rt + "Hop.PayloadSize")

			// --- PayloadSize <-> PackHopPayload --------------------------
			// field -> presence guard, for the record appends of Pack
			presence := func(f *an.Func, s an.Site) []string {
				var out []string
				for _, g := range f.GuardsAt(s) {
					if strings.HasPrefix(g, "h.") || strings.HasPrefix(g, "nextChanID") || strings.HasPrefix(g, "amt ") {
						out = append(out, g)
					}
				}
				sort.Strings(out)
				return out
			}
			norm := func(g string) string {
				g = strings.ReplaceAll(g, "amt != 0", "h.AmtToForward != 0")
				return g
			}
			packed := map[string]string{} // guard -> site
			for _, v := range pack.Graph().V {
				as, ok := v.Node.(*ast.AssignStmt)
				if !ok || len(as.Lhs) != 1 || an.Text(as.Lhs[0]) != "records" {
					continue
				}
				c, ok := as.Rhs[0].(*ast.CallExpr)
				if !ok || an.Text(c.Fun) != "append" {
					continue
				}
				s := an.Site{Fn: pack, V: v, Node: as}
				gs := presence(pack, s)
				var keep []string
				for _, g := range gs {
					g = norm(g)
					// nested validity tests (finalHop, h.MPP != nil for AMP) are not presence tests
					keep = append(keep, g)
				}
				key := strings.Join(keep, " && ")
				if c.Ellipsis.IsValid() {
					key = "custom records"
				}
				packed[key] = s.Where()
				o.Site("PackHopPayload appends under [%s]", key)
			}
			sized := map[string]string{}
			for _, s := range size.AllCalls(false) {
				c := s.Node.(*ast.CallExpr)
				if an.Text(c.Fun) != "addRecord" {
					continue
				}
				gs := presence(size, s)
				key := strings.Join(gs, " && ")
				if hdr := enclosingLoopHeader(size, c); hdr != "" {
					key = "custom records"
					if hdr != "$recv.CustomRecords" {
						o.FailAt(size.ID+"#custom-records-loop", s.Where(), "custom records are sized over %s", hdr)
					}
				}
				sized[key] = s.Where()
				a := size.ArgCanon(s)
				o.Site("PayloadSize adds (%s, %s) under [%s]", a[0], a[1], key)
				// sized from the field whose presence is tested
				if strings.HasPrefix(key, "h.") {
					fld := strings.Fields(strings.TrimPrefix(key, "h."))[0]
					constSized := map[string]string{"BlindingPoint": "btcec.PubKeyBytesLenCompressed"}
					if want, ok := constSized[fld]; ok {
						if !strings.HasSuffix(a[1], strings.TrimPrefix(want, "btcec")) {
							o.FailAt(size.ID+"#size-of-"+fld, s.Where(), "the %s record is sized %s, expected %s", fld, a[1], want)
						}
					} else if !strings.Contains(a[1], "$recv."+fld) {
						o.FailAt(size.ID+"#size-of-"+fld, s.Where(), "the %s record is sized from %s, expected an expression of h.%s", fld, a[1], fld)
					}
				}
			}
			// the AMP record is appended below `h.AMP != nil && h.MPP != nil`; PayloadSize tests h.AMP only
			alias := map[string]string{"h.AMP != nil && h.MPP != nil": "h.AMP != nil", "finalHop && h.MPP != nil": "h.MPP != nil", "h.MPP != nil && finalHop": "h.MPP != nil"}
			packedN := map[string]string{}
			for k, v := range packed {
				if a, ok := alias[k]; ok {
					k = a
				}
				packedN[k] = v
			}
			for k, w := range packedN {
				if _, ok := sized[k]; !ok {
					o.FailAt(size.ID+"#unsized:"+k, w, "PackHopPayload writes a record under [%s] that PayloadSize does not count", k)
				}
			}
			for k, w := range sized {
				if _, ok := packedN[k]; !ok {
					o.FailAt(size.ID+"#unpacked:"+k, w, "PayloadSize counts a record under [%s] that PackHopPayload does not write", k)
				}
			}
			if len(sized) < 10 {
				o.FailAt(size.ID+"#records", size.Where(size.Body.Pos()), "expected 10 sized records, found %d", len(sized))
			}
			// accumulator: zero start, record formula, length prefix, HMAC
			var accs []string
			ast.Inspect(size.Body, func(n ast.Node) bool {
				switch x := n.(type) {
				case *ast.ValueSpec:
					for i, nm := range x.Names {
						if nm.Name == "payloadSize" && len(x.Values) > i {
							o.FailAt(size.ID+"#initial", size.Where(x.Pos()), "payloadSize starts at %s, expected zero", an.Text(x.Values[i]))
						}
					}
				case *ast.AssignStmt:
					if len(x.Lhs) == 1 && an.Text(x.Lhs[0]) == "payloadSize" {
						accs = append(accs, x.Tok.String()+" "+an.Text(x.Rhs[0]))
					}
				}
				return true
			})
			o.Site("payloadSize updates: %v", accs)
			wantAcc := []string{
				"+= tlv.VarIntSize(uint64(tlvType)) + tlv.VarIntSize(length) + length",
				"+= tlv.VarIntSize(payloadSize)",
				"+= sphinx.HMACSize",
			}
			if strings.Join(accs, " | ") != strings.Join(wantAcc, " | ") {
				o.FailAt(size.ID+"#accumulation", size.Where(size.Body.Pos()), "payloadSize is accumulated as %v, expected %v", accs, wantAcc)
			}

			// --- lastHopPayloadSize <-> newRoute --------------------------
			nr := p.Func("routing.newRoute")
			// locals assigned inside the `i == len(pathEdges)-1` branch that
			// feed the hop literal: the final-hop-only fields
			finalOnly := map[string]bool{}
			var hopLit *ast.CompositeLit
			for _, cl := range p.CompositeLitsOf(p.LookupType("routing/route", "Hop")) {
				if cl.Fn != nil && cl.Fn.Root().ID == nr.ID {
					hopLit = cl.Node.(*ast.CompositeLit)
				}
			}
			if hopLit == nil {
				o.FailAt(nr.ID+"#hop-literal", "", "newRoute's hop literal not found")
				return
			}
			lastFact := an.CmpX(an.Any(), an.EQ, canonTerm(`^\(len\(\$p\d\) - 1\)$`), "i == len(pathEdges)-1")
			for _, el := range hopLit.Elts {
				kv := el.(*ast.KeyValueExpr)
				id, ok := kv.Value.(*ast.Ident)
				if !ok {
					continue
				}
				n, guardedN := 0, 0
				for _, fn := range append([]*an.Func{nr}, nr.Lits...) {
					for _, s := range fn.Assigns(an.LocalNamed(id.Name), false) {
						n++
						f := fn
						if fn.Lit != nil {
							// the WhenSome closure sits inside the branch: test its call site
							f = nr
							for _, cs := range nr.AllCalls(false) {
								if cs.Node.Pos() <= fn.Lit.Pos() && fn.Lit.End() <= cs.Node.End() {
									s = cs
								}
							}
						}
						if ok, _ := f.Guarded(s, lastFact); ok {
							guardedN++
						}
					}
				}
				if n > 0 && n == guardedN {
					finalOnly[an.Text(kv.Key)] = true
				}
			}
			var fo []string
			for k := range finalOnly {
				fo = append(fo, k)
			}
			sort.Strings(fo)
			o.Site("final-hop-only fields of newRoute: %v", fo)
			for _, need := range []string{"CustomRecords", "MPP", "Metadata", "TotalAmtMsat"} {
				if !finalOnly[need] {
					o.FailAt(nr.ID+"#final-only-"+need, nr.Where(hopLit.Pos()), "expected newRoute to set %s on the final hop only; the mirror below is derived from that", need)
				}
			}
			lh := p.Func("routing.lastHopPayloadSize")
			blindedFact := an.IsNil(an.FieldPath(an.Param(0), "BlindedPaymentPathSet"), false, "r.BlindedPaymentPathSet != nil")
			nLits := 0
			for _, cl := range p.CompositeLitsOf(p.LookupType("routing/route", "Hop")) {
				if cl.Fn == nil || cl.Fn.Root().ID != lh.ID {
					continue
				}
				nLits++
				lit := cl.Node.(*ast.CompositeLit)
				has := map[string]string{}
				for _, el := range lit.Elts {
					kv := el.(*ast.KeyValueExpr)
					has[an.Text(kv.Key)] = lh.Canon(kv.Value)
				}
				// the vertex holding the literal
				var site an.Site
				for _, v := range lh.Graph().V {
					if v.Node != nil && v.Node.Pos() <= lit.Pos() && lit.End() <= v.Node.End() {
						site = an.Site{Fn: lh, V: v, Node: v.Node}
					}
				}
				blinded, _ := lh.Guarded(site, blindedFact)
				branch := "plain"
				skip := "TotalAmtMsat" // only blinded final hops carry it
				if blinded {
					branch = "blinded"
					skip = "MPP" // blinded payments have no payment address
				}
				var keys []string
				for k := range has {
					keys = append(keys, k)
				}
				sort.Strings(keys)
				o.Site("lastHopPayloadSize %s final hop: %v", branch, keys)
				for _, fld := range fo {
					if fld == skip {
						continue
					}
					if _, ok := has[fld]; !ok {
						o.FailAt(lh.ID+"#"+branch+"-final-hop-without-"+fld, cl.Where, "the %s final hop that is sized has no %s although newRoute sets it on the real final hop", branch, fld)
					}
				}
				if blinded {
					if _, ok := has["EncryptedData"]; !ok {
						o.FailAt(lh.ID+"#blinded-final-hop-without-EncryptedData", cl.Where, "the blinded final hop that is sized has no encrypted data")
					}
				}
			}
			if nLits != 2 {
				o.FailAt(lh.ID+"#hop-literals", lh.Where(lh.Body.Pos()), "expected two sized final hops (blinded, plain), found %d", nLits)
			}
			// the MPP record is built from the payment total
			for _, fn := range append([]*an.Func{lh}, lh.Lits...) {
				for _, s := range fn.Calls(an.CalleeNamed("NewMPP"), false) {
					c := s.Node.(*ast.CallExpr)
					o.Site("lastHopPayloadSize MPP total = %s", an.Text(c.Args[0]))
					id, ok := c.Args[0].(*ast.Ident)
					fromTotal := false
					if ok {
						for _, as := range lh.Assigns(an.LocalNamed(id.Name), false) {
							if strings.Contains(lh.Canon(as.Node.(*ast.AssignStmt).Rhs[0]), "$p0.TotalAmt") {
								fromTotal = true
							}
						}
					}
					if !fromTotal {
						o.FailAt(lh.ID+"#mpp-total", s.Where(), "the sized MPP record carries %s, expected a value taken from r.TotalAmt (newRoute puts the payment total into the record)", an.Text(c.Args[0]))
					}
				}
			}
			// --- restrictions built from a payment -----------------------
			reads := map[string]bool{}
			ast.Inspect(lh.Body, func(n ast.Node) bool {
				if sel, ok := n.(*ast.SelectorExpr); ok {
					if id, ok := sel.X.(*ast.Ident); ok && id.Name == "r" {
						reads[sel.Sel.Name] = true
					}
				}
				return true
			})
			var rd []string
			for k := range reads {
				rd = append(rd, k)
			}
			sort.Strings(rd)
			o.Site("lastHopPayloadSize reads RestrictParams.%v", rd)
			nR := 0
			for _, cl := range p.CompositeLitsOf(p.LookupType("routing", "RestrictParams")) {
				if cl.Fn == nil || cl.Fn.Root().ID != "routing.paymentSession.RequestRoute" {
					continue
				}
				nR++
				has := map[string]bool{}
				for _, el := range cl.Node.(*ast.CompositeLit).Elts {
					has[an.Text(el.(*ast.KeyValueExpr).Key)] = true
				}
				for _, fld := range rd {
					if !has[fld] {
						o.FailAt("routing.paymentSession.RequestRoute#restrictions-without-"+fld, cl.Where, "the restrictions built for a payment attempt do not set %s, which lastHopPayloadSize reads to size the final hop", fld)
					}
				}
			}
			if nR != 1 {
				o.FailAt("routing.paymentSession.RequestRoute#restrictions", "", "expected one RestrictParams literal in RequestRoute, found %d", nR)
			}
		})

	r.Obl("hint-policies-flag-their-max-htlc", "TABLE",
		"amtInRange enforces a policy's MaxHTLC only when HasMaxHTLC is set; therefore every CachedEdgePolicy built in routing (route hints, blinded paths) that sets MaxHTLC also sets HasMaxHTLC",
		"a maximum that is stored but not flagged is never compared: pathfinding forwards more than the hop accepts", 2,
		func(o *an.Obl) {
			n := 0
			for _, cl := range p.CompositeLitsOf(p.LookupType("graph/db/models", "CachedEdgePolicy")) {
				if cl.Fn == nil || !strings.HasPrefix(cl.Fn.Root().ID, "routing.") {
					continue
				}
				n++
				has := map[string]bool{}
				for _, el := range cl.Node.(*ast.CompositeLit).Elts {
					if kv, ok := el.(*ast.KeyValueExpr); ok {
						has[an.Text(kv.Key)] = true
					}
				}
				o.Site("%s: policy literal MaxHTLC=%v HasMaxHTLC=%v", cl.Fn.Root().ID, has["MaxHTLC"], has["HasMaxHTLC"])
				if has["MaxHTLC"] && !has["HasMaxHTLC"] {
					o.FailAt(cl.Fn.Root().ID+"#MaxHTLC-without-HasMaxHTLC", cl.Where, "%s builds an edge policy with a MaxHTLC but without HasMaxHTLC: amtInRange never compares the maximum", cl.Fn.Root().ID)
				}
			}
			if n < 2 {
				o.FailAt("CachedEdgePolicy#literals", "", "expected at least 2 hint policies built in routing, found %d", n)
			}
		})
}
