package paymentsdb

import (
	"database/sql"
	"testing"

	"github.com/lightningnetwork/lnd/kvdb"
	"github.com/lightningnetwork/lnd/sqldb"
	"github.com/stretchr/testify/require"
)

// zzSeedStores returns one store of each backend, built without relying on the
// build-tag selected NewTestDB helper, so that both are exercised by a plain
// `go test`.
func zzSeedStores(t *testing.T) map[string]DB {
	t.Helper()

	backend, cleanup, err := kvdb.GetTestBackend(t.TempDir(), "zzseed")
	require.NoError(t, err)
	t.Cleanup(cleanup)

	kvStore, err := NewKVStore(backend)
	require.NoError(t, err)

	base := sqldb.NewTestSqliteDB(t).BaseDB
	executor := sqldb.NewTransactionExecutor(
		base, func(tx *sql.Tx) SQLQueries {
			return base.WithTx(tx)
		},
	)
	sqlStore, err := NewSQLStore(
		&SQLStoreConfig{QueryCfg: sqldb.DefaultSQLiteConfig()},
		executor,
	)
	require.NoError(t, err)

	return map[string]DB{"kv": kvStore, "sql": sqlStore}
}
