#!/bin/bash
# Builds the checker from files on disk only (offline).
set -e
cd "$(dirname "$0")"
. ./env.sh
mkdir -p bin evidence
(cd tools/lndlint && go build -o ../../bin/lndlint .)
echo "lndlint built with $(go version)"
