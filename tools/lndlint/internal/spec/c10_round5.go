package spec

import (
	"go/ast"
	"go/constant"
	"go/token"
	"go/types"
	"regexp"
	"sort"

	"lndlint/internal/an"
)

func init() { specExtras["C10"] = append(specExtras["C10"], c10r5Rules) }

var c10r5ValOfField = regexp.MustCompile(`^\$recv\.([A-Za-z0-9_]+)\.Val$`)

// c10r5Const returns the exact constant value of e, or nil.
func c10r5Const(f *an.Func, e ast.Expr) constant.Value {
	tv, ok := f.Info().Types[ast.Unparen(e)]
	if !ok || tv.Value == nil {
		return nil
	}
	return tv.Value
}

// c10r5ConstTerm matches an expression with the given constant value.
func c10r5ConstTerm(v constant.Value) an.Term {
	return func(f *an.Func, e ast.Expr) bool {
		c := c10r5Const(f, e)
		return c != nil && constant.Compare(c, token.EQL, v)
	}
}

// c10r5AbsentFlag matches the boolean `ok` of the single definition
// `_, ok := <map>[$recv.<field>.TlvType()]`: the presence flag of the record
// of that field in the parsed type map.
func c10r5AbsentFlag(field string) an.Term {
	want := "$recv." + field + ".TlvType()"
	return func(f *an.Func, e ast.Expr) bool {
		id, ok := e.(*ast.Ident)
		if !ok {
			return false
		}
		obj := f.Info().Uses[id]
		if obj == nil {
			return false
		}
		defs, hit := 0, false
		ast.Inspect(f.Root().Body, func(n ast.Node) bool {
			as, ok := n.(*ast.AssignStmt)
			if !ok {
				return true
			}
			for i, l := range as.Lhs {
				li, ok := ast.Unparen(l).(*ast.Ident)
				if !ok || (f.Info().Defs[li] != obj && f.Info().Uses[li] != obj) {
					continue
				}
				defs++
				if i == 1 && len(as.Lhs) == 2 && len(as.Rhs) == 1 {
					if ix, ok := ast.Unparen(as.Rhs[0]).(*ast.IndexExpr); ok && f.Canon(ix.Index) == want {
						if _, isMap := f.Info().TypeOf(ix.X).Underlying().(*types.Map); isMap {
							hit = true
						}
					}
				}
			}
			return true
		})
		return hit && defs == 1
	}
}

// c10r5Rules: seeded change C10-j.
func c10r5Rules(r *an.Run) {
	p := r.Prog
	r.Obl("elided-default-records-agree-with-the-decoder", "MIRROR",
		"for every pure-TLV message (a type with AllRecords and Decode): a field whose record AllRecords leaves out when its value equals a constant is restored by Decode, below the absence of that same field's record type in the parsed type map, to a constant of the same value — and conversely every constant Decode fills in for an absent record is the constant AllRecords elides that field against; the record is appended exactly below `field != constant`",
		"an elided record is read back as the decoder's default: if the two constants differ, a message whose field equals the encoder's constant changes its value on the wire (value -> bytes -> value is not the identity, and the signed serialisation goes through the same AllRecords, so the signature still verifies)", 8,
		func(o *an.Obl) {
			for _, enc := range p.Funcs(false, "lnwire") {
				if enc.Parent != nil || enc.Recv() == nil || enc.Decl == nil || enc.Decl.Name.Name != "AllRecords" {
					continue
				}
				named := an.NamedOf(enc.Recv().Type())
				if named == nil {
					continue
				}
				dec := p.FuncOpt("lnwire." + named.Obj().Name() + ".Decode")
				if dec == nil {
					continue
				}
				c10r5Elision(o, enc, dec)
			}
		})
}

type c10r5Side struct {
	val   constant.Value
	where string
	node  ast.Node
	site  an.Site
}

func c10r5Elision(o *an.Obl, enc, dec *an.Func) {
	// writer side: comparisons of $recv.F.Val with a constant
	elide := map[string]c10r5Side{}
	ast.Inspect(enc.Body, func(n ast.Node) bool {
		be, ok := n.(*ast.BinaryExpr)
		if !ok || (be.Op != token.NEQ && be.Op != token.EQL) {
			return true
		}
		for _, pr := range [][2]ast.Expr{{be.X, be.Y}, {be.Y, be.X}} {
			m := c10r5ValOfField.FindStringSubmatch(enc.Canon(an.Strip(enc.Info(), pr[0])))
			c := c10r5Const(enc, pr[1])
			if m == nil || c == nil {
				continue
			}
			if prev, dup := elide[m[1]]; dup && !constant.Compare(prev.val, token.EQL, c) {
				o.FailAt(enc.ID+"#elides-"+m[1]+"-twice", enc.Where(be.Pos()), "%s compares %s.Val with two different constants (%s at %s, %s here)", enc.ID, m[1], prev.val, prev.where, c)
			}
			elide[m[1]] = c10r5Side{val: c, where: enc.Where(be.Pos()), node: be}
		}
		return true
	})
	// reader side: $recv.F.Val = constant
	fill := map[string]c10r5Side{}
	isVal := func(fn *an.Func, e ast.Expr) bool { return c10r5ValOfField.MatchString(fn.Canon(e)) }
	for _, s := range dec.Assigns(isVal, false) {
		as, ok := s.Node.(*ast.AssignStmt)
		if !ok || len(as.Lhs) != len(as.Rhs) {
			continue
		}
		for i, l := range as.Lhs {
			m := c10r5ValOfField.FindStringSubmatch(dec.Canon(an.Strip(dec.Info(), l)))
			c := c10r5Const(dec, as.Rhs[i])
			if m == nil || c == nil {
				continue
			}
			if prev, dup := fill[m[1]]; dup && !constant.Compare(prev.val, token.EQL, c) {
				o.FailAt(dec.ID+"#defaults-"+m[1]+"-twice", s.Where(), "%s fills %s.Val with two different constants (%s at %s, %s here)", dec.ID, m[1], prev.val, prev.where, c)
			}
			fill[m[1]] = c10r5Side{val: c, where: s.Where(), node: as, site: s}
		}
	}
	names := map[string]bool{}
	for k := range elide {
		names[k] = true
	}
	for k := range fill {
		names[k] = true
	}
	var fields []string
	for k := range names {
		fields = append(fields, k)
	}
	sort.Strings(fields)
	for _, fld := range fields {
		e, okE := elide[fld]
		d, okD := fill[fld]
		switch {
		case !okD:
			o.FailAt(enc.ID+"#"+fld+"-elided-never-restored", e.where, "%s decides on %s.Val against the constant %s, but %s never restores that constant when the record is absent", enc.ID, fld, e.val, dec.ID)
			continue
		case !okE:
			o.FailAt(dec.ID+"#"+fld+"-restored-never-elided", d.where, "%s fills %s.Val with the constant %s, but %s never compares the field with a constant: the default is applied to a record that is always written, or the elision is decided elsewhere", dec.ID, fld, d.val, enc.ID)
			continue
		}
		o.Site("%s: %s.Val elided against %s (%s), restored to %s (%s)", enc.ID, fld, e.val, e.where, d.val, d.where)
		if !constant.Compare(e.val, token.EQL, d.val) {
			o.FailAt(enc.ID+"#"+fld+"-default-mismatch", e.where,
				"%s leaves the %s record out when the value equals %s (%s), but %s restores an absent record to %s (%s): a message with %s = %s is read back as %s",
				enc.ID, fld, e.val, an.Text(e.node), dec.ID, d.val, an.Text(d.node), fld, e.val, d.val)
			continue
		}
		// the fill-in happens exactly when the record of the same field is absent
		guarded(o, dec, d.site, an.Truth(c10r5AbsentFlag(fld), false, "the "+fld+" record type is absent from the parsed type map"))
		// the record is appended exactly below field != constant
		val := an.FieldPath(an.FieldPath(an.Recv(), fld), "Val")
		apps := c10r5Appends(enc, fld)
		if len(apps) == 0 {
			o.FailAt(enc.ID+"#"+fld+"-never-appended", e.where, "%s never appends the record of %s", enc.ID, fld)
			continue
		}
		for _, a := range apps {
			guarded(o, enc, a, an.Cmp(val, an.NE, c10r5ConstTerm(d.val), fld+".Val != "+d.val.ExactString()))
			for _, other := range fields {
				if other == fld {
					continue
				}
				ov := an.FieldPath(an.FieldPath(an.Recv(), other), "Val")
				for _, rel := range []an.Rel{an.NE, an.EQ} {
					if ok, n := enc.Guarded(a, an.Cmp(ov, rel, an.Any(), "")); ok && n > 0 {
						o.FailAt(constructOf(enc, a)+"#depends-on-"+other, a.Where(), "the %s record is written only below a comparison of %s.Val: whether a record is on the wire must depend on its own field only", fld, other)
					}
				}
			}
		}
	}
}

// c10r5Appends returns the statements of f that append &$recv.<field> to a
// slice.
func c10r5Appends(f *an.Func, field string) []an.Site {
	want := "&$recv." + field
	var out []an.Site
	for _, v := range f.Graph().V {
		node := v.Node
		v.Inspect(false, func(n ast.Node) bool {
			c, ok := n.(*ast.CallExpr)
			if !ok {
				return true
			}
			id, ok := ast.Unparen(c.Fun).(*ast.Ident)
			if !ok || id.Name != "append" {
				return true
			}
			if _, isBuiltin := f.Info().Uses[id].(*types.Builtin); !isBuiltin {
				return true
			}
			for _, a := range c.Args[1:] {
				if f.Canon(a) == want {
					out = append(out, an.Site{Fn: f, V: v, Node: node})
				}
			}
			return true
		})
	}
	return out
}
