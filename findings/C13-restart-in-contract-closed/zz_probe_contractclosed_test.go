package contractcourt

import (
	"fmt"
	"sync"
	"sync/atomic"
	"testing"
	"time"

	"github.com/btcsuite/btcd/chainhash/v2"
	"github.com/btcsuite/btcd/wire/v2"
	"github.com/lightningnetwork/lnd/chainntnfs"
	"github.com/lightningnetwork/lnd/channeldb"
	"github.com/lightningnetwork/lnd/fn/v2"
	"github.com/lightningnetwork/lnd/input"
	"github.com/lightningnetwork/lnd/lntest/wait"
	"github.com/lightningnetwork/lnd/lnwallet"
	"github.com/lightningnetwork/lnd/lnwire"
	"github.com/stretchr/testify/require"
)

// probeFailingLog wraps a concrete ArbitratorLog (the bolt backed one) and
// lets the probe simulate the process dying in the middle of the
// StateContractClosed step of stateStep.
type probeFailingLog struct {
	ArbitratorLog

	// failInsert, if non-zero, makes InsertUnresolvedContracts fail, i.e.
	// the node "stops" after StateContractClosed has been committed, but
	// before the resolvers are written.
	failInsert atomic.Bool

	// failCommitWaiting, if set, makes the commit of
	// StateWaitingFullResolution fail, i.e. the node "stops" after the
	// resolvers were written, but before the next state was committed.
	failCommitWaiting atomic.Bool
}

func (p *probeFailingLog) InsertUnresolvedContracts(
	reports []*channeldb.ResolverReport,
	resolvers ...ContractResolver) error {

	if p.failInsert.Load() {
		return fmt.Errorf("probe: simulated stop before " +
			"InsertUnresolvedContracts")
	}

	return p.ArbitratorLog.InsertUnresolvedContracts(reports, resolvers...)
}

func (p *probeFailingLog) CommitState(s ArbitratorState) error {
	if p.failCommitWaiting.Load() && s == StateWaitingFullResolution {
		return fmt.Errorf("probe: simulated stop before commit of %v",
			s)
	}

	return p.ArbitratorLog.CommitState(s)
}

const (
	probeCloseHeight = 100
	probeHtlcExpiry  = 1000
	probeHtlcIndex   = 99
)

type probeMode int

const (
	probeControl probeMode = iota
	probeStopBeforeInsert
	probeStopBeforeCommitWaiting
)

// probeOutgoingResolverCount returns the number of outgoing htlc resolvers
// (contest or timeout) for the probe HTLC found in the passed slice.
func probeOutgoingResolverCount(resolvers []ContractResolver) int {
	var n int
	for _, r := range resolvers {
		switch res := r.(type) {
		case *htlcOutgoingContestResolver:
			if res.htlc.HtlcIndex == probeHtlcIndex {
				n++
			}
		case *htlcTimeoutResolver:
			if res.htlc.HtlcIndex == probeHtlcIndex {
				n++
			}
		}
	}

	return n
}

func runProbeContractClosed(t *testing.T, closeType channeldb.ClosureType,
	mode probeMode) {

	// nil log => real bolt backed arbitrator log, wrapped in testArbLog.
	chanArbCtx, err := createTestChannelArbitrator(t, nil)
	require.NoError(t, err)

	// Slide our failure injecting layer in between the testArbLog and the
	// bolt log. The arbitrator holds the *testArbLog, so it'll see this.
	tLog := chanArbCtx.log.(*testArbLog)
	failLog := &probeFailingLog{ArbitratorLog: tLog.ArbitratorLog}
	tLog.ArbitratorLog = failLog
	dbCleanUp := chanArbCtx.cleanUp

	switch mode {
	case probeStopBeforeInsert:
		failLog.failInsert.Store(true)
	case probeStopBeforeCommitWaiting:
		failLog.failCommitWaiting.Store(true)
	}

	chanArb := chanArbCtx.chanArb
	require.NoError(t, chanArb.Start(nil, newBeatFromHeight(0)))

	chanArb.UpdateContractSignals(&ContractSignals{
		ShortChanID: lnwire.ShortChannelID{},
	})

	// One outgoing, non-dust HTLC which expires far in the future, so it
	// is NOT at its go-to-chain height at the closing height.
	htlc := channeldb.HTLC{
		Incoming:      false,
		Amt:           10000,
		HtlcIndex:     probeHtlcIndex,
		OutputIndex:   0,
		RefundTimeout: probeHtlcExpiry,
	}
	htlcSet := []channeldb.HTLC{htlc}

	setKey := LocalHtlcSet
	if closeType == channeldb.RemoteForceClose {
		setKey = RemoteHtlcSet
	}
	chanArb.notifyContractUpdate(&ContractUpdate{
		HtlcKey: setKey,
		Htlcs:   htlcSet,
	})

	closeTx := &wire.MsgTx{
		TxIn: []*wire.TxIn{{
			PreviousOutPoint: wire.OutPoint{},
			Witness:          [][]byte{{0x1}, {0x2}},
		}},
	}
	closeTxid := closeTx.TxHash()
	htlcOp := wire.OutPoint{Hash: closeTxid, Index: 0}

	spend := &chainntnfs.SpendDetail{
		SpenderTxHash:  &closeTxid,
		SpendingTx:     closeTx,
		SpendingHeight: probeCloseHeight,
	}

	closed := make(chan struct{}, 1)
	chanArb.cfg.MarkChannelClosed = func(*channeldb.ChannelCloseSummary,
		...channeldb.ChannelStatus) error {

		closed <- struct{}{}
		return nil
	}

	switch closeType {
	case channeldb.LocalForceClose:
		outgoingRes := lnwallet.OutgoingHtlcResolution{
			Expiry: probeHtlcExpiry,
			SweepSignDesc: input.SignDescriptor{
				Output: &wire.TxOut{},
			},
			SignedTimeoutTx: &wire.MsgTx{
				TxIn: []*wire.TxIn{{
					PreviousOutPoint: htlcOp,
					Witness:          [][]byte{{}},
				}},
				TxOut: []*wire.TxOut{{}},
			},
		}

		//nolint:ll
		chanArb.cfg.ChainEvents.LocalUnilateralClosure <- &LocalUnilateralCloseInfo{
			SpendDetail: spend,
			LocalForceCloseSummary: &lnwallet.LocalForceCloseSummary{
				CloseTx: closeTx,
				ContractResolutions: fn.Some(lnwallet.ContractResolutions{
					HtlcResolutions: &lnwallet.HtlcResolutions{
						OutgoingHTLCs: []lnwallet.OutgoingHtlcResolution{
							outgoingRes,
						},
					},
				}),
			},
			ChannelCloseSummary: &channeldb.ChannelCloseSummary{},
			CommitSet: CommitSet{
				ConfCommitKey: fn.Some(LocalHtlcSet),
				HtlcSets: map[HtlcSetKey][]channeldb.HTLC{
					LocalHtlcSet: htlcSet,
				},
			},
		}

	case channeldb.RemoteForceClose:
		outgoingRes := lnwallet.OutgoingHtlcResolution{
			Expiry:        probeHtlcExpiry,
			ClaimOutpoint: htlcOp,
			SweepSignDesc: input.SignDescriptor{
				Output: &wire.TxOut{},
			},
		}

		//nolint:ll
		chanArb.cfg.ChainEvents.RemoteUnilateralClosure <- &RemoteUnilateralCloseInfo{
			UnilateralCloseSummary: &lnwallet.UnilateralCloseSummary{
				SpendDetail: spend,
				HtlcResolutions: &lnwallet.HtlcResolutions{
					OutgoingHTLCs: []lnwallet.OutgoingHtlcResolution{
						outgoingRes,
					},
				},
			},
			CommitSet: CommitSet{
				ConfCommitKey: fn.Some(RemoteHtlcSet),
				HtlcSets: map[HtlcSetKey][]channeldb.HTLC{
					RemoteHtlcSet: htlcSet,
				},
			},
		}

	default:
		t.Fatalf("unhandled close type %v", closeType)
	}

	select {
	case <-closed:
	case <-time.After(defaultTimeout):
		t.Fatalf("channel was not marked closed")
	}

	// StateContractClosed is always durably committed.
	chanArbCtx.AssertStateTransitions(StateContractClosed)

	if mode == probeControl {
		// Uninterrupted run: the step completes.
		chanArbCtx.AssertStateTransitions(StateWaitingFullResolution)
	} else {
		// Interrupted run: the StateContractClosed step fails, the
		// persisted state must stay at StateContractClosed.
		time.Sleep(200 * time.Millisecond)
		st, err := failLog.ArbitratorLog.CurrentState(nil)
		require.NoError(t, err)
		require.Equal(t, StateContractClosed, st,
			"persisted state before restart")
	}

	// What did the first run leave behind in the log?
	pre, err := chanArbCtx.log.FetchUnresolvedContracts()
	require.NoError(t, err)
	t.Logf("[%v] before restart: persisted state=%v, unresolved "+
		"contracts in log=%d (outgoing htlc resolvers=%d), active "+
		"resolvers=%d", closeType, chanArb.state, len(pre),
		probeOutgoingResolverCount(pre), len(chanArb.activeResolvers))

	// The contract resolutions and the confirmed commit set must be
	// present in the log; this is what production has on disk as well.
	res, err := chanArbCtx.log.FetchContractResolutions()
	require.NoError(t, err)
	require.Len(t, res.HtlcResolutions.OutgoingHTLCs, 1)
	cs, err := chanArbCtx.log.FetchConfirmedCommitSet(nil)
	require.NoError(t, err)
	require.True(t, cs.ConfCommitKey.IsSome())

	// The "process" now stops and restarts. The failure injection is
	// removed: the new process has a healthy database. The restart is done
	// like ChainArbitrator.Start does for channels from
	// FetchClosedChannels(pending=true): IsPendingClose, CloseType and
	// ClosingHeight are set and the HTLC sets are empty.
	failLog.failInsert.Store(false)
	failLog.failCommitWaiting.Store(false)

	// From here on we record the state transitions in the background
	// instead of asserting them one by one: the newStates channel of the
	// testArbLog is unbuffered, so an unexpected extra transition would
	// otherwise block the arbitrator (and its Stop) forever.
	var (
		transMtx    sync.Mutex
		transitions []ArbitratorState
		stopRecord  = make(chan struct{})
		recordDone  = make(chan struct{})
	)
	go func() {
		defer close(recordDone)
		for {
			select {
			case s := <-tLog.newStates:
				transMtx.Lock()
				transitions = append(transitions, s)
				transMtx.Unlock()
			case <-stopRecord:
				return
			}
		}
	}()
	recorded := func() []ArbitratorState {
		transMtx.Lock()
		defer transMtx.Unlock()

		return append([]ArbitratorState(nil), transitions...)
	}

	// Restart() creates a fresh ctx which doesn't carry the db cleanup.
	chanArbCtx.cleanUp = nil
	newCtx, err := chanArbCtx.Restart(func(c *chanArbTestCtx) {
		c.chanArb.cfg.IsPendingClose = true
		c.chanArb.cfg.ClosingHeight = probeCloseHeight
		c.chanArb.cfg.CloseType = closeType
	})
	require.NoError(t, err)
	defer func() {
		newCtx.CleanUp()
		close(stopRecord)
		<-recordDone
		if dbCleanUp != nil {
			dbCleanUp()
		}
	}()

	if mode != probeControl {
		// The restarted arbitrator re-executes the StateContractClosed
		// step and moves on.
		err := wait.NoError(func() error {
			if len(recorded()) == 0 {
				return fmt.Errorf("no state transition")
			}

			return nil
		}, defaultTimeout)
		require.NoError(t, err)
	}

	// Give the restarted arbitrator time to launch its resolvers.
	var (
		logged []ContractResolver
		active []ContractResolver
	)
	waitErr := wait.NoError(func() error {
		var err error
		logged, err = newCtx.log.FetchUnresolvedContracts()
		if err != nil {
			return err
		}

		newCtx.chanArb.activeResolversLock.Lock()
		active = append(
			[]ContractResolver(nil),
			newCtx.chanArb.activeResolvers...,
		)
		newCtx.chanArb.activeResolversLock.Unlock()

		if probeOutgoingResolverCount(logged) != 1 {
			return fmt.Errorf("outgoing htlc resolvers in log: "+
				"%d (of %d unresolved contracts)",
				probeOutgoingResolverCount(logged), len(logged))
		}
		if probeOutgoingResolverCount(active) != 1 {
			return fmt.Errorf("active outgoing htlc resolvers: "+
				"%d (of %d active resolvers)",
				probeOutgoingResolverCount(active), len(active))
		}

		return nil
	}, 3*time.Second)

	persisted, err := failLog.ArbitratorLog.CurrentState(nil)
	require.NoError(t, err)
	t.Logf("[%v] after restart: persisted state=%v, unresolved contracts "+
		"in log=%d (outgoing htlc resolvers=%d), active resolvers=%d "+
		"(outgoing htlc resolvers=%d)", closeType, persisted,
		len(logged), probeOutgoingResolverCount(logged), len(active),
		probeOutgoingResolverCount(active))

	t.Logf("[%v] state transitions committed after restart: %v", closeType,
		recorded())

	select {
	case <-newCtx.resolvedChan:
		t.Errorf("NotifyChannelResolved was called: channel reported " +
			"fully resolved although HTLC output is unresolved")
	default:
	}

	require.Equal(t, StateWaitingFullResolution, persisted)
	require.NoError(t, waitErr, "HTLC %d of the confirmed commitment has "+
		"no resolver after the restart", probeHtlcIndex)

	// The channel must not have been reported as fully resolved.
	select {
	case <-newCtx.resolvedChan:
		t.Fatalf("channel reported fully resolved with a live HTLC")
	default:
	}
}

// TestProbeContractClosedRestart checks whether an arbitrator that is restarted
// with the persisted state StateContractClosed creates the same HTLC
// resolvers as an arbitrator that went through that state uninterrupted.
func TestProbeContractClosedRestart(t *testing.T) {
	closeTypes := []channeldb.ClosureType{
		channeldb.LocalForceClose, channeldb.RemoteForceClose,
	}
	modes := []struct {
		name string
		mode probeMode
	}{
		{"control", probeControl},
		{"stop_before_insert", probeStopBeforeInsert},
		{"stop_before_commit_waiting", probeStopBeforeCommitWaiting},
	}

	for _, ct := range closeTypes {
		for _, m := range modes {
			ctName := "local_force_close"
			if ct == channeldb.RemoteForceClose {
				ctName = "remote_force_close"
			}
			name := fmt.Sprintf("%v/%v", ctName, m.name)
			t.Run(name, func(t *testing.T) {
				runProbeContractClosed(t, ct, m.mode)
			})
		}
	}
}

var _ = chainhash.Hash{}
