package spec

import (
	"go/ast"
	"go/types"
	"regexp"
	"sort"
	"strings"

	"lndlint/internal/an"
	"lndlint/internal/flow"
)

// Helpers of the C02 / C03 specs that look at WHAT a required call is given
// and what happens to its result, not only at whether the call is reachable.

// c02ArgsAre compares the canonical forms of the arguments of call site s with
// the regular expressions in want (argument index -> expression).  Locals
// print as their unique definition, parameters as $p<i>, so the table names
// the origin of each value and not a variable name.
func c02ArgsAre(o *an.Obl, f *an.Func, s an.Site, what string, want map[int]string) {
	args := f.ArgCanon(s)
	o.Site("%s: %s receives %v", f.ID, what, args)
	idx := make([]int, 0, len(want))
	for i := range want {
		idx = append(idx, i)
	}
	sort.Ints(idx)
	for _, i := range idx {
		got := "<missing>"
		if i < len(args) {
			got = args[i]
		}
		if !reMatch(want[i], got) {
			o.FailAt(constructOf(f, s)+"#arg"+itoa(i)+"-of-"+what, s.Where(),
				"%s: argument %d of %s is %s, expected /%s/", f.ID, i, what, got, want[i])
		}
	}
}

// c02ParamNames lists the names of the parameters of f's root function.
func c02ParamNames(f *an.Func) []string {
	var out []string
	for _, p := range f.Root().Params(false) {
		if p != nil && p.Name() != "" && p.Name() != "_" {
			out = append(out, p.Name())
		}
	}
	return out
}

// c02ParamsStable: the canonical form $p<i> stands for the value the caller
// passed only if the parameter is never overwritten.
func c02ParamsStable(o *an.Obl, f *an.Func) {
	if n := c02ParamNames(f); len(n) > 0 {
		notReassigned(o, f.Root(), n...)
	}
}

// c02ErrValue matches an expression of the predeclared type error.
func c02ErrValue() an.Term {
	errT := types.Universe.Lookup("error").Type()
	return func(f *an.Func, e ast.Expr) bool {
		t := f.Info().TypeOf(e)
		return t != nil && types.Identical(t, errT)
	}
}

// c02StoredInto matches an assignable expression that denotes the field matched
// by field or a part of it (x.F, x.F.G, x.F[i], *x.F ...).
func c02StoredInto(field an.Term) an.Term {
	return func(f *an.Func, e ast.Expr) bool {
		for {
			e = ast.Unparen(e)
			if field(f, e) {
				return true
			}
			switch x := e.(type) {
			case *ast.SelectorExpr:
				e = x.X
			case *ast.IndexExpr:
				e = x.X
			case *ast.SliceExpr:
				e = x.X
			case *ast.StarExpr:
				e = x.X
			default:
				return false
			}
		}
	}
}

// c02ObjOf returns the variable an identifier expression refers to.
func c02ObjOf(f *an.Func, e ast.Expr) types.Object {
	id, ok := ast.Unparen(e).(*ast.Ident)
	if !ok {
		return nil
	}
	if o := f.Info().Uses[id]; o != nil {
		return o
	}
	return f.Info().Defs[id]
}

// c02MentionsObj reports whether n contains a use of obj.
func c02MentionsObj(f *an.Func, n ast.Node, obj types.Object) bool {
	found := false
	ast.Inspect(n, func(m ast.Node) bool {
		if id, ok := m.(*ast.Ident); ok && obj != nil && (f.Info().Uses[id] == obj || f.Info().Defs[id] == obj) {
			found = true
		}
		return !found
	})
	return found
}

// appendsOf lists the statements `v = append(v, x...)` of f for the variable
// obj together with the appended operands.
type c02AppendSite struct {
	site     an.Site
	operands []ast.Expr
	ellipsis bool
}

func c02AppendsTo(f *an.Func, obj types.Object) (apps []c02AppendSite, others []an.Site) {
	for _, v := range f.Graph().V {
		switch st := v.Node.(type) {
		case *ast.AssignStmt:
			for i, l := range st.Lhs {
				if c02ObjOf(f, l) != obj || obj == nil {
					continue
				}
				s := an.Site{Fn: f, V: v, Node: st}
				if len(st.Lhs) == len(st.Rhs) {
					if c, ok := ast.Unparen(st.Rhs[i]).(*ast.CallExpr); ok && isAppend(f, c) && len(c.Args) >= 1 && c02ObjOf(f, c.Args[0]) == obj {
						apps = append(apps, c02AppendSite{site: s, operands: c.Args[1:], ellipsis: c.Ellipsis.IsValid()})
						continue
					}
				}
				others = append(others, s)
			}
		case *ast.IncDecStmt:
			if c02ObjOf(f, st.X) == obj && obj != nil {
				others = append(others, an.Site{Fn: f, V: v, Node: st})
			}
		}
	}
	return
}

// c02RangeHeads lists the range-loop heads of f.
func c02RangeHeads(f *an.Func) []*flow.Vertex {
	var out []*flow.Vertex
	for _, v := range f.Graph().V {
		if v.Kind == flow.KRange {
			out = append(out, v)
		}
	}
	return out
}

// c02BufferStores checks the value side of the Put(key, <buf>.Bytes()) calls of
// a transaction closure: every stored buffer is a local bytes.Buffer that is
// filled by exactly one serializer call (its first argument is &buf), the
// serializer's success dominates the Put, no buffer is stored under two keys
// and no filled buffer is left unstored.  payload maps a key name to the
// serializer and the canonical form of the value it must be given.
type c02PayloadRule struct {
	writer string // callee ID suffix
	value  string // regexp on the canonical form of the serialized value
	// elems, if set: the serialized value is a local list that is only ever
	// extended by append, and every appended operand has this canonical form
	elems string
}

func c02BufferStores(o *an.Obl, cl *an.Func, payload map[string]c02PayloadRule) {
	info := cl.Info()
	isBuffer := func(obj types.Object) bool {
		return obj != nil && an.TypeID(obj.Type()) == "bytes.Buffer"
	}
	// writers: calls whose first argument is &buf / buf
	type fill struct {
		site an.Site
		call *ast.CallExpr
	}
	fills := map[types.Object][]fill{}
	for _, s := range cl.AllCalls(false) {
		c := s.Node.(*ast.CallExpr)
		if len(c.Args) == 0 {
			continue
		}
		if obj := c02ObjOf(cl, an.Strip(info, c.Args[0])); isBuffer(obj) {
			fills[obj] = append(fills[obj], fill{s, c})
		}
		// method calls on the buffer other than Bytes() also fill it
		if sel, ok := ast.Unparen(c.Fun).(*ast.SelectorExpr); ok && sel.Sel.Name != "Bytes" {
			if obj := c02ObjOf(cl, an.Strip(info, sel.X)); isBuffer(obj) {
				fills[obj] = append(fills[obj], fill{s, c})
			}
		}
	}
	stored := map[types.Object][]string{}
	for _, s := range cl.CallsMatching(an.CallNamed("Put", nil), false) {
		c := s.Node.(*ast.CallExpr)
		if len(c.Args) != 2 {
			continue
		}
		key := cl.Canon(c.Args[0])
		short := key[strings.LastIndex(key, ".")+1:]
		var buf types.Object
		if vc, ok := ast.Unparen(c.Args[1]).(*ast.CallExpr); ok {
			if sel, ok := ast.Unparen(vc.Fun).(*ast.SelectorExpr); ok && sel.Sel.Name == "Bytes" {
				buf = c02ObjOf(cl, an.Strip(info, sel.X))
			}
		}
		if !isBuffer(buf) {
			o.FailAt(cl.ID+"#stored-value-"+short, s.Where(), "the value stored under %s is %s, expected the bytes of a local buffer filled by the key's serializer", key, cl.Canon(c.Args[1]))
			continue
		}
		stored[buf] = append(stored[buf], short)
		fl := fills[buf]
		if len(fl) != 1 {
			o.FailAt(cl.ID+"#buffer-fills-"+short, s.Where(), "the buffer stored under %s is written by %d calls, expected exactly one serializer call", key, len(fl))
			continue
		}
		w := fl[0]
		wid := an.CalleeID(info, w.call)
		o.Site("%s: Put(%s) stores the buffer filled by %s(%s)", cl.ID, short, wid, strings.Join(cl.ArgCanon(w.site)[1:], ", "))
		es, _ := cl.UnionOk([]an.Site{w.site}, an.OkErrNil)
		if bad := cl.MustPass([]an.Site{s}, es); len(bad) > 0 {
			o.FailAt(cl.ID+"#buffer-unfilled-"+short, s.Where(), "the buffer stored under %s can be stored without a successful %s: %s", key, wid, bad[0])
		}
		if rule, ok := payload[short]; ok {
			args := cl.ArgCanon(w.site)
			got := "<missing>"
			if len(args) >= 2 {
				got = strings.Join(args[1:], ", ")
			}
			if !strings.HasSuffix(wid, rule.writer) || !reMatch(rule.value, got) {
				o.FailAt(cl.ID+"#payload-"+short, w.site.Where(), "the value stored under %s is serialized by %s(%s), expected %s of /%s/", key, wid, got, rule.writer, rule.value)
			}
			if rule.elems != "" && len(w.call.Args) >= 2 {
				apps, others := c02AppendsTo(cl, c02ObjOf(cl, w.call.Args[1]))
				var forms []string
				for _, a := range apps {
					for _, op := range a.operands {
						forms = append(forms, cl.Canon(op))
					}
				}
				o.Site("%s: the list stored under %s is extended by %v", cl.ID, short, forms)
				okList := len(apps) > 0 && len(others) == 0
				for _, fm := range forms {
					okList = okList && reMatch(rule.elems, fm)
				}
				if !okList {
					o.FailAt(cl.ID+"#payload-elems-"+short, w.site.Where(), "the list stored under %s is built from %v (%d other writes), expected only appends of /%s/", key, forms, len(others), rule.elems)
				}
			}
		}
	}
	for buf, ks := range stored {
		if len(ks) > 1 {
			o.FailAt(cl.ID+"#buffer-shared-"+buf.Name(), cl.Where(buf.Pos()), "the buffer %s is stored under %d keys %v; each key has its own serialized value", buf.Name(), len(ks), ks)
		}
	}
	for buf, fl := range fills {
		if len(stored[buf]) == 0 {
			o.FailAt(cl.ID+"#buffer-dropped-"+buf.Name(), fl[0].site.Where(), "the buffer %s is filled by %s but never stored", buf.Name(), an.CalleeID(info, fl[0].call))
		}
	}
}

// c02FindAll returns the first submatch of every match of re in s.
func c02FindAll(re, s string) []string {
	var out []string
	for _, m := range regexp.MustCompile(re).FindAllStringSubmatch(s, -1) {
		if len(m) > 1 {
			out = append(out, m[1])
		}
	}
	return out
}

// c02FindSub returns the first submatch of the first match of re in s.
func c02FindSub(re, s string) string {
	if m := regexp.MustCompile(re).FindStringSubmatch(s); len(m) > 1 {
		return m[1]
	}
	return ""
}
