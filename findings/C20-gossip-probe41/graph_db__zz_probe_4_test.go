//go:build !test_db_sqlite && !test_db_postgres

package graphdb

import (
	"bytes"
	"testing"

	"github.com/lightningnetwork/lnd/lnwire"
	"github.com/stretchr/testify/require"
)

// TestProbeLegacyPolicyFreshnessTimestamp: a legacy policy that is stored
// without its max_htlc field (or with invalid TLV bytes) still carries a signed
// timestamp. HasV1ChannelEdge, which is what the freshness checks of the graph
// builder and the gossiper consult, should report that timestamp; instead the
// policy reads as unknown and its time as the zero time, so any older update
// for that direction counts as fresh.
func TestProbeLegacyPolicyFreshnessTimestamp(t *testing.T) {
	t.Parallel()
	ctx := t.Context()

	graph := MakeTestGraph(t)
	boltStore, ok := graph.db.(*KVStore)
	require.True(t, ok)

	node1 := createTestVertex(t, lnwire.GossipVersion1)
	require.NoError(t, graph.AddNode(ctx, node1))
	node2 := createTestVertex(t, lnwire.GossipVersion1)
	require.NoError(t, graph.AddNode(ctx, node2))

	edgeInfo, edge1, edge2 := createChannelEdge(
		node1, node2, lnwire.GossipVersion1,
	)
	require.NoError(t, graph.AddChannelEdge(ctx, edgeInfo))

	chanID := edgeInfo.ChannelID
	from := edge2.ToNode[:]
	to := edge1.ToNode[:]

	// Same construction as TestEdgePolicyMissingMaxHTLC.
	edge1.MessageFlags = 0
	edge1.ExtraOpaqueData = nil
	var b bytes.Buffer
	require.NoError(t, serializeChanEdgePolicy(&b, edge1, to))

	edge1.MessageFlags = lnwire.ChanUpdateRequiredMaxHtlc
	edge1.MaxHTLC = 13928598
	var b2 bytes.Buffer
	require.NoError(t, serializeChanEdgePolicy(&b2, edge1, to))
	stripped := b2.Bytes()[:len(b.Bytes())]

	putSerializedPolicy(t, boltStore.db, from, chanID, stripped)

	upd1, _, exists, isZombie, err := boltStore.HasV1ChannelEdge(
		ctx, chanID,
	)
	require.NoError(t, err)
	require.True(t, exists)
	require.False(t, isZombie)
	require.Equal(t, edge1.LastUpdate.Unix(), upd1.Unix(), "the stored "+
		"policy's timestamp is lost; older updates count as fresh")
}
