package sweep

import (
	"testing"
	"time"

	"github.com/btcsuite/btcwallet/chain"
	"github.com/lightningnetwork/lnd/fn/v2"
	"github.com/lightningnetwork/lnd/input"
	"github.com/lightningnetwork/lnd/lnwallet/chainfee"
	"github.com/stretchr/testify/mock"
	"github.com/stretchr/testify/require"
)

// Probe 2: filterInputs compares the budget against the relay fee of the
// input alone (aggregator.go wu := InputSize + witness), while the ceiling is
// budget / weight-of-whole-tx. A budget in between passes the filter but the
// ceiling, and hence every rate ever offered, is below the relay floor.
func TestProbeSmallBudgetCeilingBelowRelayFloor(t *testing.T) {
	t.Parallel()

	const (
		currentHeight = int32(900)
		deadline      = int32(902)
	)

	estimator := &chainfee.MockEstimator{}
	estimator.On("RelayFeePerKW").Return(chainfee.FeePerKwFloor)
	estimator.On("EstimateFeePerKW", mock.Anything).Return(
		chainfee.SatPerKWeight(1000), nil)

	inp := createTestInput(10_000, input.WitnessKeyHash)
	pi := &SweeperInput{
		Input:          &inp,
		params:         Params{Budget: 100},
		DeadlineHeight: deadline,
	}

	agg := NewBudgetAggregator(
		estimator, DefaultMaxInputsPerTx, fn.None[AuxSweeper](),
	)
	sets := agg.ClusterInputs(InputsMap{inp.OutPoint(): pi})
	if len(sets) == 0 {
		t.Log("input filtered, nothing offered")
		return
	}

	req := &BumpRequest{
		Inputs:          sets[0].Inputs(),
		Budget:          sets[0].Budget(),
		DeadlineHeight:  sets[0].DeadlineHeight(),
		DeliveryAddress: changePkScript,
		MaxFeeRate:      chainfee.SatPerVByte(1000).FeePerKWeight(),
		StartingFeeRate: sets[0].StartingFeeRate(),
	}

	tp := NewTxPublisher(TxPublisherConfig{Estimator: estimator})
	tp.currentHeight.Store(currentHeight)

	// Refusing to build a fee function for this budget is a correct
	// outcome too (nothing is offered below the floor).
	f, err := tp.initializeFeeFunction(req)
	if err != nil {
		t.Logf("fee function refused: %v", err)
		return
	}
	t.Logf("budget=%v starting fee rate=%v", req.Budget, f.FeeRate())
	require.GreaterOrEqual(t, f.FeeRate(), chainfee.FeePerKwFloor,
		"sweep offered below the relay floor")
}

// Probe 2b: the same budget driven through the publisher on a backend
// without testmempoolaccept (neutrino): one block before the deadline the fee
// function is start=end=ceiling=205 sat/kw and the tx is handed to
// PublishTransaction below the relay floor. The correct outcome is a TxFailed
// (inputs retried/regrouped later), nothing published, and no TxFatal.
func TestProbeSmallBudgetPublishedBelowRelayFloor(t *testing.T) {
	t.Parallel()

	// NOTE: no aux sweeper here, the mock one of createTestPublisher adds
	// an extra output the ceiling doesn't account for.
	m := &mockers{
		signer:    &input.MockInputSigner{},
		wallet:    &MockWallet{},
		estimator: &chainfee.MockEstimator{},
	}
	tp := NewTxPublisher(TxPublisherConfig{
		Estimator: m.estimator,
		Signer:    m.signer,
		Wallet:    m.wallet,
	})
	tp.currentHeight.Store(901)

	m.estimator.On("RelayFeePerKW").Return(chainfee.FeePerKwFloor).Maybe()
	m.estimator.On("EstimateFeePerKW", mock.Anything).Return(
		chainfee.SatPerKWeight(1000), nil).Maybe()
	m.signer.On("ComputeInputScript", mock.Anything,
		mock.Anything).Return(&input.Script{}, nil).Maybe()
	m.wallet.On("CheckMempoolAcceptance", mock.Anything).Return(
		chain.ErrUnimplemented).Maybe()
	m.wallet.On("PublishTransaction",
		mock.Anything, mock.Anything).Return(nil).Maybe()

	inp := createTestInput(10_000, input.WitnessKeyHash)
	req := &BumpRequest{
		DeliveryAddress: changePkScript,
		Inputs:          []input.Input{&inp},
		Budget:          100,
		MaxFeeRate:      chainfee.SatPerVByte(1000).FeePerKWeight(),
		DeadlineHeight:  902,
	}

	resultChan := tp.Broadcast(req)
	rec, ok := tp.records.Load(tp.requestCounter.Load())
	require.True(t, ok)
	tp.handleInitialBroadcast(rec)

	select {
	case <-time.After(time.Second):
		t.Fatal("no result")

	case result := <-resultChan:
		t.Logf("event=%v feerate=%v err=%v", result.Event,
			result.FeeRate, result.Err)
		m.wallet.AssertNotCalled(t, "PublishTransaction",
			mock.Anything, mock.Anything)
		require.Equal(t, TxFailed, result.Event)
	}
}
