package spec

import (
	"fmt"
	"go/ast"
	"regexp"
	"strings"

	"lndlint/internal/an"
	"lndlint/internal/flow"
)

func init() {
	specExtras["C12"] = append(specExtras["C12"], c12r5Rules)
}

// c12r5Rules: seeded changes C12/i and C12/j of the fifth round.
func c12r5Rules(r *an.Run) {
	c12r5AbsentInvoice(r)
	c12r5ConfirmedCommitFeeRate(r)
}

// c12r5AbsentInvoice: both answers by which the invoice store says "there is
// no such invoice" mean "preimage unknown", not "the decision failed".
func c12r5AbsentInvoice(r *an.Run) {
	p := r.Prog
	ca := cc + "ChannelArbitrator."
	// the two ways the invoice store says "no invoice with that hash":
	// ErrInvoiceNotFound, and (kv store, as long as no invoice was ever added)
	// ErrNoInvoicesCreated
	absent := []string{"ErrInvoiceNotFound", "ErrNoInvoicesCreated"}
	r.Obl("absent-invoice-answers-mean-preimage-unknown", "TABLE",
		"isPreimageAvailable, evaluated once per answer of the invoice store that means \"no invoice with that hash\" (invoices.ErrInvoiceNotFound; invoices.ErrNoInvoicesCreated, the kv store's answer while no invoice was ever added): with the error of Registry.LookupInvoice being that sentinel (error non-nil, errors.Is / == true for it and false for every other sentinel) every return reachable after the lookup hands out the verdict false with a nil error",
		"an error of isPreimageAvailable makes checkCommitChainActions give up the whole go-to-chain evaluation of the block (no deadline of any HTLC of the channel is acted upon, on every block) and makes the two dangling-HTLC passes skip the HTLC (it is never failed back upstream); a node that never created an invoice - every pure routing node - gets the second answer for every forwarded HTLC", 3,
		func(o *an.Obl) {
			f := p.Func(ca + "isPreimageAvailable")
			look := f.Calls(an.CalleeNamed("LookupInvoice"), false)
			if !needExactly(o, f, "Registry.LookupInvoice", look, 1) {
				return
			}
			const errOp = `(?:.*LookupInvoice\(.*\)#1|\$v:error)`
			isRe := regexp.MustCompile(`^!?\(?errors\.Is\(` + errOp + `, invoices\.(Err[A-Za-z]+)\)\)?$`)
			cmpRe := regexp.MustCompile(`^\(` + errOp + ` (==|!=) invoices\.(Err[A-Za-z]+)\)$`)
			cmpRevRe := regexp.MustCompile(`^\(invoices\.(Err[A-Za-z]+) (==|!=) ` + errOp + `\)$`)
			nilRe := regexp.MustCompile(`^\((?:` + errOp + ` (==|!=) nil|nil (==|!=) ` + errOp + `)\)$`)
			for _, sentinel := range absent {
				sentinel := sentinel
				decide := func(fn *an.Func, v *flow.Vertex) (bool, bool) {
					c := fn.AtomCanon(v)
					if m := isRe.FindStringSubmatch(c); m != nil {
						return (m[1] == sentinel) != strings.HasPrefix(c, "!"), true
					}
					if m := cmpRe.FindStringSubmatch(c); m != nil {
						return (m[2] == sentinel) == (m[1] == "=="), true
					}
					if m := cmpRevRe.FindStringSubmatch(c); m != nil {
						return (m[1] == sentinel) == (m[2] == "=="), true
					}
					if m := nilRe.FindStringSubmatch(c); m != nil {
						return m[1]+m[2] == "!=", true
					}
					return false, false
				}
				reach := f.ReachUnderStop(look[0].V, decide, nil)
				n := 0
				for _, s := range f.Returns() {
					rs, ok := s.Node.(*ast.ReturnStmt)
					if !ok || !reach[s.V] || s.V == look[0].V {
						continue
					}
					n++
					verdict, errRes := "", ""
					if len(rs.Results) == 2 {
						verdict, errRes = f.Canon(rs.Results[0]), f.Canon(rs.Results[1])
					}
					o.Site("%s: invoice store answers %s: return (%s, %s)", s.String(), sentinel, verdict, errRes)
					if errRes != "nil" {
						o.FailAt(f.ID+"#absent-invoice-is-an-error-"+sentinel, s.Where(), "when the invoice store answers invoices.%s (no invoice with that hash) isPreimageAvailable returns the error %s instead of \"preimage unknown\": the go-to-chain evaluation of the channel is given up on every block and dangling HTLCs are not failed back", sentinel, errRes)
					} else if verdict != "false" {
						o.FailAt(f.ID+"#absent-invoice-verdict-"+sentinel, s.Where(), "when the invoice store answers invoices.%s (no invoice with that hash) isPreimageAvailable returns the verdict %s, expected false", sentinel, verdict)
					}
				}
				if n == 0 {
					o.FailAt(f.ID+"#absent-invoice-no-return-"+sentinel, look[0].Where(), "no return is reachable after the invoice lookup answered invoices.%s", sentinel)
				}
			}
		})
}

// c12r5ConfirmedCommitFeeRate: the HTLC resolutions of a confirmed commitment
// are derived from that commitment's own fee rate and HTLC list.
func c12r5ConfirmedCommitFeeRate(r *an.Run) {
	p := r.Prog
	r.Obl("htlc-resolutions-use-fee-rate-and-htlcs-of-the-commitment-that-confirmed", "ROLE",
		"every call of lnwallet.extractHtlcResolutions passes as fee rate chainfee.SatPerKWeight(X.FeePerKw) and as HTLC list X.Htlcs (or a local assigned only X.Htlcs and nil) for one and the same commitment X; X is the caller's parameter of type ChannelCommitment when it has one (NewUnilateralCloseSummary: the commitment the chain watcher matched against the spend, current or pending) and is not reassigned, otherwise the stored commitment of the party whose commitment is resolved (NewLocalForceCloseSummary: chanState.LocalCommitment); inside extractHtlcResolutions the dust test HtlcIsDust that decides which HTLCs get a resolution receives the function's own fee-rate, party and channel-type parameters and the direction and amount of the loop's element",
		"whether an HTLC has an output on a commitment depends on that commitment's fee rate (second-level fee added to the dust limit): with the fee rate of another commitment (the stored current one while the pending one confirmed after an update_fee) an HTLC that has an output gets no resolution, prepContractResolutions finds none for it and creates no resolver, and it is not failed back either because it is neither dust nor dangling on the confirmed set", 3,
		func(o *an.Obl) {
			if !p.HasPkg("lnwallet") {
				o.FailAt("lnwallet#not-loaded", "", "package lnwallet is not loaded")
				return
			}
			feeRe := regexp.MustCompile(`^(?:[A-Za-z0-9_./]*/)?chainfee\.SatPerKWeight\((.+)\.FeePerKw\)$`)
			for _, f := range p.Funcs(false, "lnwallet") {
				for _, s := range f.Calls(an.CalleeIs(lw+"extractHtlcResolutions"), true) {
					c := s.Node.(*ast.CallExpr)
					if len(c.Args) < 4 {
						continue
					}
					fee := f.Canon(c.Args[0])
					o.Site("%s: fee rate %s, htlcs %s", s.String(), fee, f.Canon(c.Args[3]))
					m := feeRe.FindStringSubmatch(fee)
					if m == nil {
						o.FailAt(f.ID+"#fee-rate-source", s.Where(), "%s hands extractHtlcResolutions the fee rate %s, which is not the FeePerKw of a commitment", f.ID, fee)
						continue
					}
					commit := m[1]
					// the HTLC list: X.Htlcs directly or a local with the
					// definitions X.Htlcs / nil
					var lists []string
					if id, isID := ast.Unparen(c.Args[3]).(*ast.Ident); isID && f.UniqueDef(id) == nil && f.Info().Uses[id] != nil {
						obj := f.Info().Uses[id]
						isVar := func(fn *an.Func, e ast.Expr) bool {
							i, k := e.(*ast.Ident)
							return k && (fn.Info().Uses[i] == obj || fn.Info().Defs[i] == obj)
						}
						for _, w := range f.Root().Assigns(isVar, true) {
							if rhs := rhsFor(f.Root(), w, obj); rhs != nil {
								lists = append(lists, f.Canon(rhs))
							} else {
								lists = append(lists, "<"+an.Text(w.Node)+">")
							}
						}
					}
					if len(lists) == 0 {
						lists = []string{f.Canon(c.Args[3])}
					}
					some := false
					for _, l := range lists {
						if l == "nil" {
							continue
						}
						some = true
						if l != commit+".Htlcs" {
							o.FailAt(f.ID+"#fee-rate-and-htlcs-of-different-commitments", s.Where(), "%s extracts the HTLC resolutions from the HTLC list %s with the fee rate of %s: the dust classification that decides which HTLCs get a resolution is made with the fee rate of another commitment than the one whose HTLCs are resolved", f.ID, l, commit)
						}
					}
					if !some {
						o.FailAt(f.ID+"#htlc-list", s.Where(), "cannot find the HTLC list %s hands to extractHtlcResolutions", f.ID)
					}
					// which commitment
					root := f.Root()
					want, why := "", ""
					for i, pv := range root.Params(false) {
						if n := an.NamedOf(pv.Type()); n != nil && n.Obj().Name() == "ChannelCommitment" {
							want, why = fmt.Sprintf("$p%d", i), "the commitment the caller says confirmed (parameter "+pv.Name()+")"
							notReassigned(o, root, pv.Name())
						}
					}
					if want == "" {
						party := f.Canon(c.Args[1])
						switch party {
						case "lntypes.Local":
							want, why = `$p0.LocalCommitment`, "the stored local commitment"
						case "lntypes.Remote":
							want, why = `$p0.RemoteCommitment`, "the stored remote commitment"
						default:
							o.FailAt(f.ID+"#party", s.Where(), "cannot relate the party %s of the extractHtlcResolutions call to a stored commitment", party)
							continue
						}
					}
					if commit != want {
						o.FailAt(f.ID+"#fee-rate-of-another-commitment", s.Where(), "%s derives the HTLC resolutions with the fee rate of %s, expected %s = %s: an HTLC that has an output on the confirmed commitment but is dust at the other fee rate gets no resolver", f.ID, commit, want, why)
					}
				}
			}
			// the dust test inside
			e := p.Func(lw + "extractHtlcResolutions")
			dust := e.Calls(an.CalleeIs(lw+"HtlcIsDust"), false)
			if !need(o, e, "HtlcIsDust", dust, 1) {
				return
			}
			names := c12r5ParamIndex(e)
			for _, s := range dust {
				a := e.ArgCanon(s)
				o.Site("%s: %v", s.String(), a)
				if len(a) != 6 {
					continue
				}
				wantArg := []string{
					`^\$p` + names["chanType"] + `$`,
					`^\$elem\(\$p` + names["htlcs"] + `\)\.Incoming$`,
					`^\$p` + names["whoseCommit"] + `$`,
					`^\$p` + names["feePerKw"] + `$`,
					`^\$elem\(\$p` + names["htlcs"] + `\)\.Amt\.ToSatoshis\(\)$`,
					``,
				}
				what := []string{"channel type", "direction", "party", "fee rate", "amount", "dust limit"}
				for i, re := range wantArg {
					if re != "" && !reMatch(re, a[i]) {
						o.FailAt(e.ID+"#dust-test-"+what[i], s.Where(), "the dust test of extractHtlcResolutions receives as %s %s, expected /%s/ (the function's own parameter / the loop's element)", what[i], a[i], re)
					}
				}
			}
			var fixed []string
			for i, pv := range e.Params(false) {
				for _, k := range []string{"feePerKw", "whoseCommit", "htlcs", "chanType"} {
					if names[k] == fmt.Sprint(i) {
						fixed = append(fixed, pv.Name())
					}
				}
			}
			notReassigned(o, e, fixed...)
		})
}

// c12r5ParamIndex maps the baseline parameter names of extractHtlcResolutions
// to their index, by type (so that the rule does not depend on the names).
func c12r5ParamIndex(e *an.Func) map[string]string {
	out := map[string]string{"feePerKw": "?", "whoseCommit": "?", "htlcs": "?", "chanType": "?"}
	for i, pv := range e.Params(false) {
		t := pv.Type().String()
		switch {
		case strings.HasSuffix(t, "chainfee.SatPerKWeight"):
			out["feePerKw"] = fmt.Sprint(i)
		case strings.HasSuffix(t, "lntypes.ChannelParty"):
			out["whoseCommit"] = fmt.Sprint(i)
		case strings.HasPrefix(t, "[]") && strings.HasSuffix(t, ".HTLC"):
			out["htlcs"] = fmt.Sprint(i)
		case strings.HasSuffix(t, ".ChannelType"):
			out["chanType"] = fmt.Sprint(i)
		}
	}
	return out
}
