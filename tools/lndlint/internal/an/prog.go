// Package an holds the repository-independent analysis helpers ("engines")
// on top of the type-checked program: function lookup, call/site queries,
// guard and path rules on the flow graph, codec agreement, decision tables,
// reference (who-may) rules, lock and field typestate rules.
package an

import (
	"fmt"
	"go/ast"
	"go/token"
	"go/types"
	"os"
	"path/filepath"
	"sort"
	"strings"

	"golang.org/x/tools/go/packages"
	"golang.org/x/tools/go/types/typeutil"

	"lndlint/internal/flow"
	"lndlint/internal/load"
)

// ModPrefix is trimmed from package paths to get short names.
const ModPrefix = "github.com/lightningnetwork/lnd/"

// Prog is the set of loaded packages.
type Prog struct {
	Fset  *token.FileSet
	Loads []*load.Result
	pkgs  map[string]*packages.Package // by short path
	funcs map[string]*Func             // by ID
	byObj map[*types.Func]*Func
	// all source functions, sorted by ID
	all           []*Func
	implCache     map[string][]string
	methodsByName map[string][]*Func
	// Overlay holds in-memory replacements of source files (witness mutants);
	// rules that read a file of the repository that is not part of a loaded
	// package go through ReadFile so that they see them.
	Overlay map[string][]byte
}

// ReadFile reads a file of the analysed tree, honouring the overlay.
func (p *Prog) ReadFile(path string) ([]byte, error) {
	if b, ok := p.Overlay[path]; ok {
		return b, nil
	}
	return os.ReadFile(path)
}

// Func is a source function: a declaration or a function literal.
type Func struct {
	Prog          *Prog
	Pkg           *packages.Package
	ID            string // lnwallet.LightningChannel.SignNextCommitment, or <parent>$1 for literals
	Decl          *ast.FuncDecl
	Lit           *ast.FuncLit
	Obj           *types.Func // nil for literals
	Parent        *Func       // enclosing function for literals
	Body          *ast.BlockStmt
	Type          *ast.FuncType
	File          *ast.File
	Lits          []*Func // directly or indirectly nested literals, in source order
	graph         *flow.Graph
	defCache      map[types.Object]*defInfo
	rangeCache    map[types.Object]ast.Expr
	rangeKeyCache map[types.Object]ast.Expr
}

// AnchorError is raised (by panic) when an anchor cannot be resolved; the
// obligation runner turns it into a failure of that obligation.
type AnchorError struct{ Msg string }

func (e AnchorError) Error() string { return "anchor unresolved: " + e.Msg }

func anchorf(format string, a ...any) { panic(AnchorError{fmt.Sprintf(format, a...)}) }

// Short trims the module prefix from a package path.
func Short(path string) string {
	if path == strings.TrimSuffix(ModPrefix, "/") {
		return "lnd"
	}
	return strings.TrimPrefix(path, ModPrefix)
}

// NewProg indexes the loads. All loads must share one FileSet (Load creates
// one each; positions are only ever resolved through the owning package).
func NewProg(loads ...*load.Result) *Prog {
	p := &Prog{pkgs: map[string]*packages.Package{}, funcs: map[string]*Func{}, byObj: map[*types.Func]*Func{}, Loads: loads}
	for _, l := range loads {
		if p.Fset == nil {
			p.Fset = l.Fset
		}
		for _, pkg := range l.Roots {
			s := Short(pkg.PkgPath)
			if _, dup := p.pkgs[s]; dup {
				continue
			}
			p.pkgs[s] = pkg
			p.indexPkg(pkg)
		}
	}
	sort.Slice(p.all, func(i, j int) bool { return p.all[i].ID < p.all[j].ID })
	return p
}

// IsTestish reports whether a file is outside all who-may rules: tests,
// mocks and test helpers.
func IsTestish(filename string) bool {
	b := filepath.Base(filename)
	return strings.HasSuffix(b, "_test.go") || strings.HasPrefix(b, "mock") ||
		strings.HasPrefix(b, "test_") || strings.Contains(b, "_mock") || b == "test_utils.go"
}

func (p *Prog) indexPkg(pkg *packages.Package) {
	for _, file := range pkg.Syntax {
		for _, d := range file.Decls {
			fd, ok := d.(*ast.FuncDecl)
			if !ok || fd.Body == nil {
				continue
			}
			obj, _ := pkg.TypesInfo.Defs[fd.Name].(*types.Func)
			if obj == nil {
				continue
			}
			f := &Func{Prog: p, Pkg: pkg, ID: FuncID(obj), Decl: fd, Obj: obj, Body: fd.Body, Type: fd.Type, File: file}
			if fd.Name.Name == "init" || fd.Name.Name == "_" {
				f.ID = fmt.Sprintf("%s@%s", f.ID, filepath.Base(p.position(pkg, fd.Pos()).Filename))
			}
			normalizeNames(f.ID, pkg.TypesInfo, fd)
			p.funcs[f.ID] = f
			p.byObj[obj] = f
			p.all = append(p.all, f)
			p.indexLits(f, f, fd.Body)
		}
		// package-level function literals (var x = func(){...})
		for _, d := range file.Decls {
			gd, ok := d.(*ast.GenDecl)
			if !ok {
				continue
			}
			for _, s := range gd.Specs {
				vs, ok := s.(*ast.ValueSpec)
				if !ok {
					continue
				}
				for i, val := range vs.Values {
					name := "_"
					if i < len(vs.Names) {
						name = vs.Names[i].Name
					}
					holder := &Func{Prog: p, Pkg: pkg, ID: Short(pkg.PkgPath) + "." + name + "$var", File: file}
					n := 0
					ast.Inspect(val, func(x ast.Node) bool {
						if fl, ok := x.(*ast.FuncLit); ok {
							n++
							lf := &Func{Prog: p, Pkg: pkg, ID: fmt.Sprintf("%s$%d", holder.ID, n), Lit: fl, Body: fl.Body, Type: fl.Type, File: file}
							p.funcs[lf.ID] = lf
							p.all = append(p.all, lf)
							p.indexLits(lf, lf, fl.Body)
							return false
						}
						return true
					})
				}
			}
		}
	}
}

func (p *Prog) indexLits(root, parent *Func, body ast.Node) {
	ast.Inspect(body, func(x ast.Node) bool {
		fl, ok := x.(*ast.FuncLit)
		if !ok {
			return true
		}
		lf := &Func{Prog: p, Pkg: root.Pkg, Lit: fl, Body: fl.Body, Type: fl.Type, File: root.File, Parent: parent}
		root.Lits = append(root.Lits, lf)
		lf.ID = fmt.Sprintf("%s$%d", root.ID, len(root.Lits))
		p.funcs[lf.ID] = lf
		p.all = append(p.all, lf)
		if parent != root {
			parent.Lits = append(parent.Lits, lf)
		}
		p.indexLits(root, lf, fl.Body)
		return false
	})
}

// FuncID is the stable identifier of a function object:
// pkg.Func, pkg.Type.Method (no pointer star, no type arguments).
func FuncID(f *types.Func) string {
	if f == nil {
		return ""
	}
	f = f.Origin()
	pkg := ""
	if f.Pkg() != nil {
		pkg = Short(f.Pkg().Path())
	}
	sig, _ := f.Type().(*types.Signature)
	if sig != nil && sig.Recv() != nil {
		t := sig.Recv().Type()
		if pt, ok := t.(*types.Pointer); ok {
			t = pt.Elem()
		}
		switch nt := t.(type) {
		case *types.Named:
			return pkg + "." + nt.Obj().Name() + "." + f.Name()
		case *types.Alias:
			return pkg + "." + nt.Obj().Name() + "." + f.Name()
		default:
			// method of an interface literal
			return pkg + ".?." + f.Name()
		}
	}
	return pkg + "." + f.Name()
}

// Pkg returns a loaded package by short path or panics with AnchorError.
func (p *Prog) Pkg(short string) *packages.Package {
	pkg := p.pkgs[short]
	if pkg == nil {
		anchorf("package %s not loaded", short)
	}
	return pkg
}

// HasPkg reports whether the package is loaded.
func (p *Prog) HasPkg(short string) bool { return p.pkgs[short] != nil }

// Pkgs lists loaded packages (short paths, sorted).
func (p *Prog) Pkgs() []string {
	var out []string
	for s := range p.pkgs {
		out = append(out, s)
	}
	sort.Strings(out)
	return out
}

// Func returns the source function with the given ID or panics with
// AnchorError.
func (p *Prog) Func(id string) *Func {
	f := p.funcs[id]
	if f == nil {
		anchorf("function %s", id)
	}
	return f
}

// FuncOpt returns the function or nil.
func (p *Prog) FuncOpt(id string) *Func { return p.funcs[id] }

// FuncOf returns the source function of an object, or nil.
func (p *Prog) FuncOf(obj *types.Func) *Func {
	if obj == nil {
		return nil
	}
	return p.byObj[obj.Origin()]
}

// Funcs returns all source functions (declarations and literals) of the
// given packages (all if none given), excluding test-ish files unless
// withTests.
func (p *Prog) Funcs(withTests bool, pkgs ...string) []*Func {
	want := map[string]bool{}
	for _, s := range pkgs {
		want[s] = true
	}
	var out []*Func
	for _, f := range p.all {
		if len(want) > 0 && !want[Short(f.Pkg.PkgPath)] {
			continue
		}
		if !withTests && IsTestish(f.Filename()) {
			continue
		}
		out = append(out, f)
	}
	return out
}

func (p *Prog) position(pkg *packages.Package, pos token.Pos) token.Position {
	return pkg.Fset.Position(pos)
}

// Filename of the function's file.
func (f *Func) Filename() string {
	return f.Pkg.Fset.Position(f.Body.Pos()).Filename
}

// Root returns the outermost enclosing declaration.
func (f *Func) Root() *Func {
	for f.Parent != nil {
		f = f.Parent
	}
	return f
}

// Info is the package's type information.
func (f *Func) Info() *types.Info { return f.Pkg.TypesInfo }

// Where renders a position relative to the repository root.
func (f *Func) Where(pos token.Pos) string { return Where(f.Pkg, pos) }

// Where renders pos as path:line relative to the module directory.
func Where(pkg *packages.Package, pos token.Pos) string {
	if !pos.IsValid() {
		return "?"
	}
	ps := pkg.Fset.Position(pos)
	fn := ps.Filename
	if pkg.Module != nil && pkg.Module.Dir != "" {
		if rel, err := filepath.Rel(pkg.Module.Dir, fn); err == nil && !strings.HasPrefix(rel, "..") {
			mod := Short(pkg.Module.Path)
			if mod != "lnd" && mod != "" {
				rel = mod + "/" + rel
			}
			fn = rel
		}
	}
	return fmt.Sprintf("%s:%d", fn, ps.Line)
}

// Graph returns (and caches) the flow graph of f.
func (f *Func) Graph() *flow.Graph {
	if f.graph == nil {
		info := f.Info()
		f.graph = flow.New(f.Pkg.Fset, f.Body, func(c *ast.CallExpr) bool { return NoReturnCall(info, c) })
	}
	return f.graph
}

// NoReturnCall recognises calls that never return.
func NoReturnCall(info *types.Info, c *ast.CallExpr) bool {
	switch fn := ast.Unparen(c.Fun).(type) {
	case *ast.Ident:
		if b, ok := info.Uses[fn].(*types.Builtin); ok && b.Name() == "panic" {
			return true
		}
	}
	if f, ok := typeutil.Callee(info, c).(*types.Func); ok && f.Pkg() != nil {
		switch f.Pkg().Path() + "." + f.Name() {
		case "os.Exit", "log.Fatal", "log.Fatalf", "log.Fatalln", "log.Panic", "log.Panicf", "runtime.Goexit":
			return true
		}
		if (f.Name() == "Fatal" || f.Name() == "Fatalf" || f.Name() == "Criticalf_never") && f.Pkg().Path() == "testing" {
			return true
		}
	}
	return false
}

// Callee returns the statically resolved callee (function, method or
// interface method) of a call, or nil for calls of function values,
// conversions and builtins.
func Callee(info *types.Info, c *ast.CallExpr) *types.Func {
	f, _ := typeutil.Callee(info, c).(*types.Func)
	if f != nil {
		f = f.Origin()
	}
	return f
}

// CalleeID is FuncID(Callee), "builtin.<name>" for builtins, "" otherwise.
func CalleeID(info *types.Info, c *ast.CallExpr) string {
	if f := Callee(info, c); f != nil {
		return FuncID(f)
	}
	if id, ok := ast.Unparen(c.Fun).(*ast.Ident); ok {
		if b, ok := info.Uses[id].(*types.Builtin); ok {
			return "builtin." + b.Name()
		}
	}
	// a call through a func-typed struct field (configuration callbacks):
	// identified by the field, "<pkg>.field.<Name>"
	if sel, ok := ast.Unparen(c.Fun).(*ast.SelectorExpr); ok {
		if s := info.Selections[sel]; s != nil && s.Kind() == types.FieldVal {
			if v, ok := s.Obj().(*types.Var); ok && v.Pkg() != nil {
				return Short(v.Pkg().Path()) + ".field." + v.Name()
			}
		}
	}
	return ""
}

// Params returns the parameter objects of f in order (receiver first if
// withRecv).
func (f *Func) Params(withRecv bool) []*types.Var {
	var out []*types.Var
	info := f.Info()
	add := func(fl *ast.FieldList) {
		if fl == nil {
			return
		}
		for _, fld := range fl.List {
			if len(fld.Names) == 0 {
				out = append(out, nil)
			}
			for _, n := range fld.Names {
				v, _ := info.Defs[n].(*types.Var)
				out = append(out, v)
			}
		}
	}
	if withRecv && f.Decl != nil {
		add(f.Decl.Recv)
	}
	add(f.Type.Params)
	return out
}

// Recv returns the receiver object or nil.
func (f *Func) Recv() *types.Var {
	if f.Decl == nil || f.Decl.Recv == nil || len(f.Decl.Recv.List) == 0 || len(f.Decl.Recv.List[0].Names) == 0 {
		return nil
	}
	v, _ := f.Info().Defs[f.Decl.Recv.List[0].Names[0]].(*types.Var)
	return v
}

// Results returns the result types.
func (f *Func) Results() []types.Type {
	var out []types.Type
	if f.Type.Results == nil {
		return nil
	}
	for _, fld := range f.Type.Results.List {
		t := f.Info().TypeOf(fld.Type)
		n := len(fld.Names)
		if n == 0 {
			n = 1
		}
		for i := 0; i < n; i++ {
			out = append(out, t)
		}
	}
	return out
}

// ResultNames returns the named result objects (nil entries if unnamed).
func (f *Func) ResultNames() []*types.Var {
	var out []*types.Var
	if f.Type.Results == nil {
		return nil
	}
	for _, fld := range f.Type.Results.List {
		if len(fld.Names) == 0 {
			out = append(out, nil)
		}
		for _, n := range fld.Names {
			v, _ := f.Info().Defs[n].(*types.Var)
			out = append(out, v)
		}
	}
	return out
}

// IsErrorType reports whether t is the predeclared error type.
func IsErrorType(t types.Type) bool {
	return t != nil && types.Identical(t, types.Universe.Lookup("error").Type())
}

// NamedOf returns the named type of t behind pointers, or nil.
func NamedOf(t types.Type) *types.Named {
	for {
		switch x := t.(type) {
		case *types.Pointer:
			t = x.Elem()
		case *types.Alias:
			t = types.Unalias(x)
		case *types.Named:
			return x
		default:
			return nil
		}
	}
}

// TypeID renders a named type as pkg.Name (short package path).
func TypeID(t types.Type) string {
	n := NamedOf(t)
	if n == nil {
		return types.TypeString(t, func(p *types.Package) string { return Short(p.Path()) })
	}
	if n.Obj().Pkg() == nil {
		return n.Obj().Name()
	}
	return Short(n.Obj().Pkg().Path()) + "." + n.Obj().Name()
}

// LookupType finds a named type pkg.Name.
func (p *Prog) LookupType(short, name string) *types.Named {
	pkg := p.Pkg(short)
	obj := pkg.Types.Scope().Lookup(name)
	tn, ok := obj.(*types.TypeName)
	if !ok {
		anchorf("type %s.%s", short, name)
	}
	n, ok := types.Unalias(tn.Type()).(*types.Named)
	if !ok {
		anchorf("type %s.%s is not a named type", short, name)
	}
	return n
}

// LookupObj finds a package-level object.
func (p *Prog) LookupObj(short, name string) types.Object {
	pkg := p.Pkg(short)
	obj := pkg.Types.Scope().Lookup(name)
	if obj == nil {
		anchorf("object %s.%s", short, name)
	}
	return obj
}

// Field finds the field object of struct type pkg.Type.
func (p *Prog) Field(short, typ, field string) *types.Var {
	n := p.LookupType(short, typ)
	st, ok := n.Underlying().(*types.Struct)
	if !ok {
		anchorf("%s.%s is not a struct", short, typ)
	}
	for i := 0; i < st.NumFields(); i++ {
		if st.Field(i).Name() == field {
			return st.Field(i)
		}
	}
	anchorf("field %s.%s.%s", short, typ, field)
	return nil
}

// Method finds a method object (including interface methods).
func (p *Prog) Method(short, typ, name string) *types.Func {
	n := p.LookupType(short, typ)
	if it, ok := n.Underlying().(*types.Interface); ok {
		for i := 0; i < it.NumMethods(); i++ {
			if it.Method(i).Name() == name {
				return it.Method(i)
			}
		}
	}
	for i := 0; i < n.NumMethods(); i++ {
		if n.Method(i).Name() == name {
			return n.Method(i)
		}
	}
	anchorf("method %s.%s.%s", short, typ, name)
	return nil
}

// LookupTypeAny is LookupType for packages that are only imported (not
// loaded as roots).
func (p *Prog) LookupTypeAny(short, name string) *types.Named {
	if p.HasPkg(short) {
		return p.LookupType(short, name)
	}
	for _, pk := range p.pkgs {
		for _, imp := range pk.Types.Imports() {
			if Short(imp.Path()) == short {
				if tn, ok := imp.Scope().Lookup(name).(*types.TypeName); ok {
					if n, ok := types.Unalias(tn.Type()).(*types.Named); ok {
						return n
					}
				}
			}
		}
	}
	anchorf("type %s.%s", short, name)
	return nil
}
