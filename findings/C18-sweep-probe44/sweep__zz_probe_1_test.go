package sweep

import (
	"errors"
	"sync"
	"testing"
	"time"

	"github.com/btcsuite/btcd/btcutil/v2"
	"github.com/btcsuite/btcd/wire/v2"
	"github.com/lightningnetwork/lnd/chainntnfs"
	"github.com/lightningnetwork/lnd/fn/v2"
	"github.com/lightningnetwork/lnd/input"
	"github.com/lightningnetwork/lnd/lnwallet"
	"github.com/lightningnetwork/lnd/lnwallet/chainfee"
	"github.com/stretchr/testify/mock"
	"github.com/stretchr/testify/require"
)

// probeHarness wires a real UtxoSweeper, a real BudgetAggregator and a real
// TxPublisher together. The collector/monitor goroutines are not started, the
// probe plays the role of the blockbeat dispatcher instead.
type probeHarness struct {
	t *testing.T

	s  *UtxoSweeper
	tp *TxPublisher

	wallet    *MockWallet
	estimator *chainfee.MockEstimator

	mu        sync.Mutex
	published []*wire.MsgTx
	heights   []int32
}

func newProbeHarness(t *testing.T, height int32,
	estimate chainfee.SatPerKWeight) *probeHarness {

	h := &probeHarness{t: t}

	h.wallet = &MockWallet{}
	signer := &input.MockInputSigner{}
	notifier := &chainntnfs.MockChainNotifier{}
	h.estimator = &chainfee.MockEstimator{}
	store := &MockSweeperStore{}

	h.estimator.On("RelayFeePerKW").Return(chainfee.FeePerKwFloor)
	if estimate != 0 {
		h.estimator.On("EstimateFeePerKW", mock.Anything).Return(
			estimate, nil)
	}

	signer.On("ComputeInputScript", mock.Anything, mock.Anything).Return(
		&input.Script{}, nil)

	notifier.On("RegisterSpendNtfn", mock.Anything, mock.Anything,
		mock.Anything).Return(&chainntnfs.SpendEvent{
		Spend:  make(chan *chainntnfs.SpendDetail),
		Cancel: func() {},
	}, nil)

	store.On("StoreTx", mock.Anything).Return(nil)
	store.On("GetTx", mock.Anything).Return(&TxRecord{}, nil)
	store.On("DeleteTx", mock.Anything).Return(nil)

	h.wallet.On("CancelRebroadcast", mock.Anything).Return()
	h.wallet.On("CheckMempoolAcceptance", mock.Anything).Return(nil)
	h.wallet.On("PublishTransaction", mock.Anything, mock.Anything).Run(
		func(args mock.Arguments) {
			h.mu.Lock()
			defer h.mu.Unlock()

			tx := args.Get(0).(*wire.MsgTx)
			h.published = append(h.published, tx.Copy())
			h.heights = append(
				h.heights, h.tp.currentHeight.Load(),
			)
		}).Return(nil)

	h.tp = NewTxPublisher(TxPublisherConfig{
		Estimator:  h.estimator,
		Signer:     signer,
		Wallet:     h.wallet,
		Notifier:   notifier,
		AuxSweeper: fn.None[AuxSweeper](),
	})
	h.tp.currentHeight.Store(height)

	h.s = New(&UtxoSweeperConfig{
		Wallet:       h.wallet,
		Publisher:    h.tp,
		FeeEstimator: h.estimator,
		Notifier:     notifier,
		Store:        store,
		MaxFeeRate:   chainfee.SatPerVByte(1000),
		Aggregator: NewBudgetAggregator(
			h.estimator, DefaultMaxInputsPerTx,
			fn.None[AuxSweeper](),
		),
		GenSweepScript: func() fn.Result[lnwallet.AddrWithKey] {
			return fn.Ok(changePkScript)
		},
		NoDeadlineConfTarget: uint32(DefaultDeadlineDelta),
	})
	h.s.currentHeight = height

	t.Cleanup(func() {
		close(h.s.quit)
		h.s.wg.Wait()
	})

	return h
}

// pump handles all the bump results the publisher has sent to the sweeper.
func (h *probeHarness) pump() {
	for {
		select {
		case resp := <-h.s.bumpRespChan:
			h.t.Logf("  sweeper got %v: feerate=%v err=%v",
				resp.result.Event, resp.result.FeeRate,
				resp.result.Err)

			_ = h.s.handleBumpEvent(resp)

		case <-time.After(100 * time.Millisecond):
			return
		}
	}
}

// block plays a new block: the publisher goes first, then the sweeper.
func (h *probeHarness) block(height int32) {
	h.t.Logf("block %d", height)

	h.tp.currentHeight.Store(height)
	h.tp.processRecords()
	h.tp.wg.Wait()
	h.pump()

	h.s.currentHeight = height
	h.s.sweepPendingInputs(h.s.updateSweeperInputs())
	h.pump()
}

func (h *probeHarness) offer(inp input.Input, params Params) {
	err := h.s.handleNewInput(&sweepInputMessage{
		input:      inp,
		params:     params,
		resultChan: make(chan Result, 1),
	})
	require.NoError(h.t, err)

	if params.Immediate {
		h.s.sweepPendingInputs(h.s.updateSweeperInputs())
	}
	h.pump()
}

// TestProbeRetryRateForgottenAfterInitialFailure shows that the fee rate
// already offered for an input is forgotten when a regrouped attempt fails with
// one of the errors for which handleInitialTxError sends a TxFailed without a
// fee rate (ErrTxNoOutput here): the sweeper overwrites the input's starting
// fee rate with the zero value and the next attempt starts from the fee
// estimator again, below what was published before.
//
// FAILS on the unmodified tree.
func TestProbeRetryRateForgottenAfterInitialFailure(t *testing.T) {
	const (
		startHeight = int32(100)
		deadline    = int32(110)
		value       = int64(1000)
	)

	h := newProbeHarness(t, startHeight, 300)

	// An input of 1000 sats whose budget is 900 sats: once the fee is
	// above 670 sats the change is dust and the tx has no output.
	inp := createTestInput(value, input.WitnessKeyHash)
	h.offer(&inp, Params{
		Budget:         900,
		DeadlineHeight: fn.Some(deadline),
		Immediate:      true,
	})

	for height := startHeight + 1; height < deadline; height++ {
		h.block(height)
	}

	h.mu.Lock()
	defer h.mu.Unlock()

	var lastFee btcutil.Amount
	for i, tx := range h.published {
		fee := btcutil.Amount(value - tx.TxOut[0].Value)
		t.Logf("published at height %d: fee=%v", h.heights[i], fee)

		require.GreaterOrEqualf(t, fee, lastFee, "tx published at "+
			"height %d pays less than the one before",
			h.heights[i])
		lastFee = fee
	}
}

// TestProbeEstimatorErrorIsFatal shows that an error from the fee estimator
// when the fee function is created abandons the inputs for good (TxFatal), so
// they are never published, let alone at their ceiling before the deadline.
//
// FAILS on the unmodified tree.
func TestProbeEstimatorErrorIsFatal(t *testing.T) {
	const (
		startHeight = int32(100)
		deadline    = int32(110)
	)

	h := newProbeHarness(t, startHeight, 0)

	// The estimator fails once, then works.
	h.estimator.On("EstimateFeePerKW", mock.Anything).Return(
		chainfee.SatPerKWeight(0), errors.New("rpc hiccup")).Once()
	h.estimator.On("EstimateFeePerKW", mock.Anything).Return(
		chainfee.SatPerKWeight(300), nil)

	inp := createTestInput(1_000_000, input.WitnessKeyHash)
	h.offer(&inp, Params{
		Budget:         10_000,
		DeadlineHeight: fn.Some(deadline),
		Immediate:      true,
	})

	for height := startHeight + 1; height < deadline; height++ {
		h.block(height)
	}

	h.mu.Lock()
	defer h.mu.Unlock()

	require.NotEmpty(t, h.published, "input was never published after a "+
		"single estimator error")
}

// TestProbeWalletTopUpLeavesDustChangeAtCeiling shows that the wallet top-up
// of a set with a required output stops as soon as the wallet inputs cover the
// budget, without leaving room for a non-dust change: with a wallet utxo worth
// a bit more than the budget, the change at the top of the fee range is dust,
// it is donated to the miners, the fee then exceeds the budget and the tx is
// refused by the budget sanity check. The ceiling is never published, and
// every retry picks the same wallet utxo again.
//
// FAILS on the unmodified tree.
func TestProbeWalletTopUpLeavesDustChangeAtCeiling(t *testing.T) {
	// The wallet has a second, larger utxo the top-up could use to make
	// room for the change.
	probeWalletTopUp(t, 50_000)
}

// TestProbeWalletTopUpLoneUtxoDustChangeAtCeiling is the same, but the wallet
// has nothing else to offer: the ceiling cannot be paid without either
// exceeding the budget or creating a dust change.
func TestProbeWalletTopUpLoneUtxoDustChangeAtCeiling(t *testing.T) {
	probeWalletTopUp(t, 0)
}

func probeWalletTopUp(t *testing.T, secondUtxo btcutil.Amount) {
	const (
		startHeight = int32(100)
		deadline    = int32(105)
		htlcValue   = int64(10_000)
		budget      = btcutil.Amount(2_000)
		walletValue = btcutil.Amount(2_200)
	)

	h := newProbeHarness(t, startHeight, 300)

	// The wallet has a single utxo worth a bit more than the budget.
	p2wkh := append([]byte{0x00, 0x14}, make([]byte, 20)...)
	h.wallet.On("WithCoinSelectLock", mock.Anything).Return(nil)
	utxos := []*lnwallet.Utxo{{
		AddressType: lnwallet.WitnessPubKey,
		Value:       walletValue,
		PkScript:    p2wkh,
		OutPoint:    wire.OutPoint{Index: 7},
	}}
	if secondUtxo != 0 {
		utxos = append(utxos, &lnwallet.Utxo{
			AddressType: lnwallet.WitnessPubKey,
			Value:       secondUtxo,
			PkScript:    p2wkh,
			OutPoint:    wire.OutPoint{Index: 8},
		})
	}
	h.wallet.On("ListUnspentWitnessFromDefaultAccount", mock.Anything,
		mock.Anything).Return(utxos, nil)

	// A second level HTLC input which commits to its output.
	p2wsh := append([]byte{0x00, 0x20}, make([]byte, 32)...)
	op := wire.OutPoint{Index: 3}
	htlc := &input.MockInput{}
	htlc.On("OutPoint").Return(op)
	htlc.On("RequiredTxOut").Return(&wire.TxOut{
		Value: htlcValue, PkScript: p2wsh,
	})
	htlc.On("RequiredLockTime").Return(uint32(0), false)
	htlc.On("WitnessType").Return(
		input.HtlcOfferedTimeoutSecondLevelInputConfirmed)
	htlc.On("SignDesc").Return(&input.SignDescriptor{
		Output: &wire.TxOut{Value: htlcValue, PkScript: p2wsh},
	})
	htlc.On("CraftInputScript", mock.Anything, mock.Anything,
		mock.Anything, mock.Anything, mock.Anything).Return(
		&input.Script{}, nil)
	htlc.On("BlocksToMaturity").Return(uint32(0))
	htlc.On("HeightHint").Return(uint32(1))
	htlc.On("UnconfParent").Return(nil)
	htlc.On("ResolutionBlob").Return(nil)

	h.offer(htlc, Params{
		Budget:         budget,
		DeadlineHeight: fn.Some(deadline),
		Immediate:      true,
	})

	for height := startHeight + 1; height < deadline; height++ {
		h.block(height)
	}

	h.mu.Lock()
	defer h.mu.Unlock()

	var (
		lastFee    btcutil.Amount
		lastHeight int32
	)
	for i, tx := range h.published {
		var outSum int64
		for _, txOut := range tx.TxOut {
			outSum += txOut.Value
		}
		fee := btcutil.Amount(htlcValue) + walletValue -
			btcutil.Amount(outSum)
		if len(tx.TxIn) == 3 {
			fee += secondUtxo
		}
		t.Logf("published at height %d: fee=%v, outputs=%d",
			h.heights[i], fee, len(tx.TxOut))

		require.LessOrEqual(t, fee, budget)
		lastFee, lastHeight = fee, h.heights[i]
	}

	// One block before the deadline the tx paying (nearly) the whole
	// budget must have been published.
	require.Equal(t, deadline-1, lastHeight, "nothing published one "+
		"block before the deadline")
	require.GreaterOrEqual(t, lastFee, budget-1, "ceiling not reached")
}
