package spec

// Witnesses for the obligations of c13_round5.go: the seeded changes C13/i and
// C13/j of the fifth round as textual edits.
func init() {
	registry["C13"].Mutants = append(registry["C13"].Mutants, []Mutant{
		{Name: "seed5-C13-i", File: "contractcourt/channel_arbitrator.go",
			Old:    "\tfor _, contract := range resolvers {\n\t\tc.wg.Add(1)\n\t\tgo c.resolveContract(contract)\n",
			New:    "\tfor _, contract := range resolvers {\n\t\tif contract.IsResolved() {\n\t\t\tcontinue\n\t\t}\n\n\t\tc.wg.Add(1)\n\t\tgo c.resolveContract(contract)\n",
			Expect: "every-contract-handed-over-gets-its-resolution-goroutine"},
		{Name: "seed5-C13-j", File: "contractcourt/breach_arbitrator.go",
			Old:    "\t\t\ttap2, ok := tapCase.TapTweaks.Val.BreachedSecondLevelHltcTweaks[resID]\n",
			New:    "\t\t\ttap2, ok := tapCase.TapTweaks.Val.BreachedHtlcTweaks[resID]\n",
			Expect: "restarted-breach-arbiter-restores-each-taproot-field-from-where-it-was-stored"},
	}...)
}
