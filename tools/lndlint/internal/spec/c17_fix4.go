package spec

import (
	"fmt"
	"go/ast"
	"go/token"
	"go/types"
	"sort"
	"strings"

	"lndlint/internal/an"
	"lndlint/internal/flow"
)

// Obligations for the repairs 41218a6, 89eaaa8, 6dc445b, e946472 and ed63cf9
// of the cooperative close (probe 22).
func init() {
	specExtras["C17"] = append(specExtras["C17"], c17f4Rules)
}

// c17f4CanonGuards returns, in canonical form (parameters as $pN, locals as
// their definitions), the condition atoms every path to s decides one way: the
// atom itself when its true edge is required, "!"+atom when its false edge is.
func c17f4CanonGuards(f *an.Func, s an.Site) []string {
	var out []string
	g := f.Graph()
	for _, v := range g.V {
		var c string
		switch v.Kind {
		case flow.KCond:
			e, _ := v.Node.(ast.Expr)
			if e == nil {
				continue
			}
			c = f.Canon(e)
		case flow.KCase:
			e, _ := v.Node.(ast.Expr)
			if e == nil || v.Tag == nil {
				continue
			}
			c = "(" + f.Canon(v.Tag) + " == " + f.Canon(e) + ")"
		case flow.KTypeCase:
			c = "type " + an.Text(v.Node)
		default:
			continue
		}
		for _, ed := range v.Out {
			if (ed.Kind == flow.ETrue || ed.Kind == flow.EFalse) && !g.Reach(g.Entry, flow.EdgeSet{ed: true}, nil)[s.V] {
				if ed.Kind == flow.EFalse {
					out = append(out, "!"+c)
				} else {
					out = append(out, c)
				}
			}
		}
	}
	sort.Strings(out)
	return out
}

// c17f4SameSet compares two string sets given as slices.
func c17f4SameSet(a, b []string) bool {
	x := append([]string{}, a...)
	y := append([]string{}, b...)
	sort.Strings(x)
	sort.Strings(y)
	return strings.Join(x, "\x00") == strings.Join(y, "\x00")
}

// c17f4Minus returns the elements of a that are not in b.
func c17f4Minus(a, b []string) []string {
	in := map[string]bool{}
	for _, x := range b {
		in[x] = true
	}
	var out []string
	for _, x := range a {
		if !in[x] {
			out = append(out, x)
		}
	}
	return out
}

// c17f4FieldWrite is one statement of f that writes a field of the variable
// obj (obj.F = .., obj.F += .., obj.F++).
type c17f4FieldWrite struct {
	Site  an.Site
	Field string
	Tok   token.Token
	Rhs   ast.Expr
}

// c17f4FieldWritesOf lists the writes to fields of the variable obj in f
// (closures included; a write inside a closure has no graph site and is
// returned with a zero Site.V).
func c17f4FieldWritesOf(f *an.Func, obj types.Object) []c17f4FieldWrite {
	var out []c17f4FieldWrite
	rooted := func(e ast.Expr) (string, bool) {
		sel, ok := ast.Unparen(e).(*ast.SelectorExpr)
		if !ok {
			return "", false
		}
		id := c17BaseIdent(sel.X)
		if id == nil || c17ObjOfIdent(f, id) != obj {
			return "", false
		}
		return sel.Sel.Name, true
	}
	ast.Inspect(f.Body, func(n ast.Node) bool {
		switch x := n.(type) {
		case *ast.AssignStmt:
			for i, l := range x.Lhs {
				name, ok := rooted(l)
				if !ok {
					continue
				}
				w := c17f4FieldWrite{Field: name, Tok: x.Tok}
				if len(x.Lhs) == len(x.Rhs) {
					w.Rhs = x.Rhs[i]
				}
				w.Site, _ = c17SiteOfNode(f, x)
				w.Site.Fn, w.Site.Node = f, x
				out = append(out, w)
			}
		case *ast.IncDecStmt:
			if name, ok := rooted(x.X); ok {
				w := c17f4FieldWrite{Field: name, Tok: x.Tok}
				w.Site, _ = c17SiteOfNode(f, x)
				w.Site.Fn, w.Site.Node = f, x
				out = append(out, w)
			}
		}
		return true
	})
	return out
}

// c17f4CloseBalances is the balance clause of
// C17/proposal-and-completion-same-inputs for one of the two functions: the
// arguments 3 and 4 of the builder call tx are variables defined as results
// #0 and #1 of the one CoopCloseBalance call; the local one is written by
// nothing else; the remote one additionally by exactly one `= 0`, placed after
// the successful balance call and before the builder call under the single
// extra condition `<the applied close options>.omitRemoteOutput`.  The
// returned string describes the zeroing, for the comparison of the two
// functions.
func c17f4CloseBalances(o *an.Obl, f *an.Func, name string, tx an.Site, bal []an.Site) string {
	c := tx.Node.(*ast.CallExpr)
	g := f.Graph()
	omit := an.Field("", "omitRemoteOutput", an.CallTo(lw+"defaultCloseOpts", nil))
	var sig []string
	for i, idx := range []int{3, 4} {
		id, ok := ast.Unparen(c.Args[idx]).(*ast.Ident)
		if !ok {
			o.FailAt(f.ID+"#tx-balance-"+fmt.Sprint(i), tx.Where(), "balance argument %d is %s", idx, an.Text(c.Args[idx]))
			continue
		}
		obj := c17ObjOfIdent(f, id)
		nDef := 0
		for _, w := range c17WritesOf(f, obj) {
			as, _ := w.Node.(*ast.AssignStmt)
			if as != nil && w.Whole && w.Tuple && len(as.Rhs) == 1 && len(bal) == 1 {
				pos := -1
				for k, l := range as.Lhs {
					if l == w.Lhs {
						pos = k
					}
				}
				if ast.Unparen(as.Rhs[0]) == bal[0].Node && pos == i {
					nDef++
					continue
				}
			}
			if i == 1 && as != nil && w.Whole && !w.Tuple && w.Tok == token.ASSIGN && w.Rhs != nil && an.IntConst(0)(f, ast.Unparen(w.Rhs)) {
				if s, inGraph := c17SiteOfNode(f, as); inGraph {
					extra := c17ExtraGuards(f, s, tx)
					var cond ast.Expr
					if len(extra) == 1 && extra[0].Kind == flow.ETrue && extra[0].From.Kind == flow.KCond {
						cond, _ = extra[0].From.Node.(ast.Expr)
					}
					if cond == nil || !an.Match(f, omit, cond) {
						var txt []string
						for _, e := range extra {
							t := an.Text(e.From.Node)
							if e.Kind == flow.EFalse {
								t = "!(" + t + ")"
							}
							txt = append(txt, t)
						}
						o.FailAt(f.ID+"#omission-guard", s.Where(), "%s zeroes the remote balance under %v, expected exactly the omit-remote-output flag of the applied close options", name, txt)
						continue
					}
					o.Site("%s: %s under %s", name, an.Text(as), f.Canon(cond))
					mustPass(o, f, "CoopCloseBalance", bal, an.OkErrNil, []an.Site{s})
					if c17StrictlyAfter(g, tx.V)[s.V] || !c17StrictlyAfter(g, s.V)[tx.V] {
						o.FailAt(f.ID+"#omission-after-build", s.Where(), "%s zeroes the remote balance at %s, which does not precede the transaction builder call", name, s.String())
					}
					sig = append(sig, fmt.Sprintf("balance #%d = 0 iff %s", i, f.Canon(cond)))
					continue
				}
			}
			o.FailAt(f.ID+"#tx-balance-"+fmt.Sprint(i)+"-written", f.Where(w.Node.Pos()), "%s: the balance handed to the builder as argument %d is written by %s; only result %d of CoopCloseBalance (and, for the remote balance, the zeroing under the omit-remote-output option) are tabled", name, idx, an.Text(w.Node), i)
		}
		if nDef != 1 {
			o.FailAt(f.ID+"#tx-balance-"+fmt.Sprint(i), tx.Where(), "argument %d of CreateCooperativeCloseTx (%s) is not result %d of CoopCloseBalance", idx, id.Name, i)
		}
	}
	switch len(sig) {
	case 0:
		o.FailAt(f.ID+"#omitted-output-not-honoured", tx.Where(), "%s accepts the omit-remote-output option but builds the transaction with the remote balance unchanged", name)
	case 1:
	default:
		o.FailAt(f.ID+"#omitted-output-twice", tx.Where(), "%s zeroes the remote balance %d times", name, len(sig))
	}
	sort.Strings(sig)
	return strings.Join(sig, "; ")
}

// c17f4SameValue: the two expressions have the same canonical form (and the
// same text where the canonical form goes through a variable the canon cannot
// name), and are the same variable when both are variables.
func c17f4SameValue(f *an.Func, a, b ast.Expr) bool {
	ca, cb := f.Canon(a), f.Canon(b)
	if ca != cb {
		return false
	}
	if strings.Contains(ca, "$v:") && an.Text(a) != an.Text(b) {
		return false
	}
	ia, aok := ast.Unparen(a).(*ast.Ident)
	ib, bok := ast.Unparen(b).(*ast.Ident)
	if aok && bok {
		return c17ObjOfIdent(f, ia) == c17ObjOfIdent(f, ib)
	}
	return true
}

// c17f4LitsOf returns the composite literals of the named type typeID in the
// body of f (closures included).
func c17f4LitsOf(f *an.Func, typeID string) []*ast.CompositeLit {
	var out []*ast.CompositeLit
	ast.Inspect(f.Body, func(n ast.Node) bool {
		if cl, ok := n.(*ast.CompositeLit); ok && an.TypeID(f.Info().TypeOf(cl)) == typeID {
			out = append(out, cl)
		}
		return true
	})
	return out
}

// c17f4KV returns the value of the key of a composite literal.
func c17f4KV(cl *ast.CompositeLit, key string) ast.Expr {
	for _, el := range cl.Elts {
		if kv, ok := el.(*ast.KeyValueExpr); ok && an.Text(kv.Key) == key {
			return kv.Value
		}
	}
	return nil
}

// c17f4IdentGuardsOf returns the identifiers whose truth (true edge of an
// `if x` test) every path to s establishes.
func c17f4IdentGuardsOf(f *an.Func, s an.Site) []*ast.Ident {
	g := f.Graph()
	var out []*ast.Ident
	for _, v := range g.V {
		if v.Kind != flow.KCond {
			continue
		}
		e, _ := v.Node.(ast.Expr)
		if e == nil {
			continue
		}
		id, ok := ast.Unparen(e).(*ast.Ident)
		if !ok {
			continue
		}
		for _, ed := range v.Out {
			if ed.Kind == flow.ETrue && !g.Reach(g.Entry, flow.EdgeSet{ed: true}, nil)[s.V] {
				out = append(out, id)
			}
		}
	}
	return out
}

func c17f4Rules(r *an.Run) {
	p := r.Prog
	cc := "lnwallet/chancloser."
	lc := lw + "LightningChannel."

	// ------------------------------------------------------------ 41218a6
	r.Obl("rbf-announced-terms-are-the-signed-terms", "MIRROR",
		"the closing_complete message LocalCloseStart sends names exactly the terms it signed: FeeSatoshis, CloserScript and CloseeScript are the fee and the local / remote script handed to CreateCloseProposal and LockTime is the argument of the WithCustomLockTime option in that call's option list; RemoteCloseStart hands createClosingSigMessage the local script, remote script and fee it handed to createLocalCloseeSignature and the lock time of its WithCustomLockTime option, and createClosingSigMessage writes them into closing_sig as CloseeScript, CloserScript, FeeSatoshis and LockTime without changing them",
		"the peer rebuilds the transaction from the announced fee, scripts and lock time: a term announced but not signed (the old closer announced its block height and signed at lock time 0) makes every signature of the round invalid", 14,
		func(o *an.Obl) {
			start := p.Func(cc + "LocalCloseStart.ProcessEvent")
			prop := start.Calls(an.CalleeNamed("CreateCloseProposal"), false)
			lock := start.Calls(an.CalleeIs(lw+"WithCustomLockTime"), true)
			lits := c17f4LitsOf(start, "lnwire.ClosingComplete")
			if needExactly(o, start, "CreateCloseProposal", prop, 1) && needExactly(o, start, "WithCustomLockTime option", lock, 1) {
				if len(lits) != 1 {
					o.FailAt(start.ID+"#closing-complete-literal", start.Where(start.Body.Pos()), "expected exactly one closing_complete message built by %s, found %d", start.ID, len(lits))
				} else {
					pc := prop[0].Node.(*ast.CallExpr)
					lockArg := lock[0].Node.(*ast.CallExpr).Args[0]
					// the lock option is part of the list the proposal is signed with
					if lid := c17LastArgIdent(prop[0]); lid == nil || !c17f4InList(start, lid, lock[0].Node.(*ast.CallExpr)) {
						o.FailAt(start.ID+"#lock-option-not-signed", lock[0].Where(), "the lock time option %s is not placed in the option list the proposal is signed with", an.Text(lock[0].Node))
					}
					for _, row := range []struct {
						key  string
						want ast.Expr
						what string
					}{
						{"FeeSatoshis", pc.Args[0], "the fee the proposal was signed for"},
						{"CloserScript", pc.Args[1], "the local script the proposal was signed for"},
						{"CloseeScript", pc.Args[2], "the remote script the proposal was signed for"},
						{"LockTime", lockArg, "the lock time the proposal was signed with"},
					} {
						got := c17f4KV(lits[0], row.key)
						if got == nil {
							o.FailAt(start.ID+"#announced-"+row.key, start.Where(lits[0].Pos()), "closing_complete does not announce %s", row.key)
							continue
						}
						o.Site("closing_complete.%s = %s; signed %s", row.key, start.Canon(got), start.Canon(row.want))
						if !c17f4SameValue(start, got, row.want) {
							o.FailAt(start.ID+"#announced-"+row.key, start.Where(got.Pos()), "closing_complete announces %s = %s, but %s is %s", row.key, an.Text(got), row.what, an.Text(row.want))
						}
					}
				}
			}

			rem := p.Func(cc + "RemoteCloseStart.ProcessEvent")
			msgFn := p.Func(cc + "createClosingSigMessage")
			hs := rem.Calls(an.CalleeIs(cc+"createLocalCloseeSignature"), false)
			ms := rem.Calls(an.CalleeIs(cc+"createClosingSigMessage"), false)
			rlock := rem.Calls(an.CalleeIs(lw+"WithCustomLockTime"), true)
			if needExactly(o, rem, "createLocalCloseeSignature", hs, 1) && needExactly(o, rem, "createClosingSigMessage", ms, 1) && needExactly(o, rem, "WithCustomLockTime option", rlock, 1) {
				sc, mc := hs[0].Node.(*ast.CallExpr), ms[0].Node.(*ast.CallExpr)
				if len(sc.Args) != 5 || len(mc.Args) != 9 {
					o.FailAt(rem.ID+"#closing-sig-call-shape", ms[0].Where(), "createLocalCloseeSignature / createClosingSigMessage are called with %d / %d arguments, the rule knows 5 / 9", len(sc.Args), len(mc.Args))
				} else {
					for _, row := range []struct {
						idx  int
						want ast.Expr
						what string
					}{
						{3, sc.Args[2], "the local script it signed for"},
						{4, sc.Args[3], "the remote script it signed for"},
						{5, sc.Args[1], "the fee it signed for"},
						{6, rlock[0].Node.(*ast.CallExpr).Args[0], "the lock time it signed with"},
					} {
						o.Site("createClosingSigMessage argument %d = %s; signed %s", row.idx, rem.Canon(mc.Args[row.idx]), rem.Canon(row.want))
						if !c17f4SameValue(rem, mc.Args[row.idx], row.want) {
							o.FailAt(rem.ID+fmt.Sprintf("#closing-sig-arg-%d", row.idx), ms[0].Where(), "the closee answers with %s as argument %d of createClosingSigMessage, but %s is %s", an.Text(mc.Args[row.idx]), row.idx, row.what, an.Text(row.want))
						}
					}
				}
			}
			sigLits := c17f4LitsOf(msgFn, "lnwire.ClosingSig")
			if len(sigLits) != 1 || len(msgFn.Params(false)) != 9 {
				o.FailAt(msgFn.ID+"#closing-sig-literal", msgFn.Where(msgFn.Body.Pos()), "expected one closing_sig literal in createClosingSigMessage with 9 parameters, found %d literals and %d parameters", len(sigLits), len(msgFn.Params(false)))
			} else {
				for key, want := range map[string]string{"CloseeScript": "$p3", "CloserScript": "$p4", "FeeSatoshis": "$p5", "LockTime": "$p6"} {
					got := c17f4KV(sigLits[0], key)
					o.Site("closing_sig.%s = %s", key, msgFn.Canon(got))
					if got == nil || msgFn.Canon(got) != want {
						o.FailAt(msgFn.ID+"#closing-sig-"+key, msgFn.Where(sigLits[0].Pos()), "closing_sig carries %s = %s, expected the value the caller signed for (%s)", key, an.Text(got), want)
					}
				}
				notReassigned(o, msgFn, c17ParamNames(msgFn, 3, 4, 5, 6, 7, 8)...)
			}
		})

	// ------------------------------------------------------------ 6dc445b
	r.Obl("closee-answers-for-the-version-it-signed", "TABLE",
		"the omit-remote-output flag of the close options is set by WithOmittedRemoteCloseOutput alone (to true) and read by CreateCloseProposal and CompleteCooperativeClose alone; selectAndExtractSig selects closer_output_only exactly when the local output is dust, otherwise closer_and_closee_outputs when present and closee_output_only when not, and reports no-closee-output exactly when the local output is dust; extractSigAndNonceFromClosingComplete hands that report on and selects from parseSigFields of its message; RemoteCloseStart hands createClosingSigMessage that report and the very condition under which it placed the omission option; createClosingSigMessage answers, for taproot and regular channels alike, in CloserNoClosee iff no-closee-output, in NoCloserClosee iff not no-closee-output and no-closer-output, in CloserAndClosee otherwise",
		"the closee must build, sign and answer for the version of the transaction the selected signature of the closer covers (BOLT 2 closing_complete): an answer in another field, or an output the closer left out, gives the closer a signature that does not verify", 20,
		func(o *an.Obl) {
			// who writes / reads the flag
			fld := p.Field("lnwallet", "chanCloseOpt", "omitRemoteOutput")
			readers := map[string]string{lc + "CreateCloseProposal": "", lc + "CompleteCooperativeClose": ""}
			nWrites := 0
			for _, ref := range p.RefsTo(fld, false) {
				id, _ := ref.Node.(*ast.Ident)
				fnID := "<package-level>"
				if ref.Fn != nil {
					fnID = ref.Fn.ID
				}
				o.Site("omitRemoteOutput referenced by %s at %s", fnID, ref.Where)
				if ref.Fn == nil {
					o.FailAt("omitRemoteOutput<-"+fnID, ref.Where, "the omit-remote-output flag is referenced at package level")
					continue
				}
				// a write?
				var write *ast.AssignStmt
				ast.Inspect(ref.Fn.Body, func(n ast.Node) bool {
					if as, ok := n.(*ast.AssignStmt); ok {
						for _, l := range as.Lhs {
							if sel, ok := ast.Unparen(l).(*ast.SelectorExpr); ok && sel.Sel == id {
								write = as
							}
						}
					}
					return true
				})
				isKV := false
				ast.Inspect(ref.Fn.Body, func(n ast.Node) bool {
					if kv, ok := n.(*ast.KeyValueExpr); ok && kv.Key == ast.Expr(id) {
						isKV = true
					}
					return true
				})
				switch {
				case write != nil || isKV:
					nWrites++
					okWrite := write != nil && ref.Fn.ID == lw+"WithOmittedRemoteCloseOutput" && len(write.Lhs) == 1 && len(write.Rhs) == 1 && write.Tok == token.ASSIGN && an.BoolConst(true)(ref.Fn, ast.Unparen(write.Rhs[0]))
					if !okWrite {
						o.FailAt("omitRemoteOutput<-write@"+fnID, ref.Where, "the omit-remote-output flag is written in %s; only WithOmittedRemoteCloseOutput may set it (to true)", fnID)
					}
				default:
					if _, ok := readers[fnID]; !ok {
						o.FailAt("omitRemoteOutput<-read@"+fnID, ref.Where, "the omit-remote-output flag is read in %s; only the proposal and the completion honour it (alike)", fnID)
					}
				}
			}
			if nWrites != 1 {
				o.FailAt("omitRemoteOutput#writes", "", "expected exactly one write of the omit-remote-output flag (in WithOmittedRemoteCloseOutput), found %d", nWrites)
			}

			// selection table
			sel := p.Func(cc + "selectAndExtractSig")
			sp := sel.Params(false)
			if len(sp) != 2 || sp[0] == nil || sp[1] == nil {
				o.FailAt(sel.ID+"#params", sel.Where(sel.Body.Pos()), "selectAndExtractSig has %d parameters, the rule knows (fields, localIsDust)", len(sp))
				return
			}
			notReassigned(o, sel, sp[0].Name(), sp[1].Name())
			const dust, both = "$p1", "$p0.CloserAndClosee.IsSome()"
			wantSel := map[string][]string{
				"CloserNoClosee":  {dust},
				"CloserAndClosee": {"!" + dust, both},
				"NoCloserClosee":  {"!" + dust, "!" + both},
			}
			var selObj types.Object
			seen := map[string]int{}
			for _, v := range sel.Graph().V {
				as, ok := v.Node.(*ast.AssignStmt)
				if !ok || len(as.Lhs) != 1 || len(as.Rhs) != 1 {
					continue
				}
				rs, ok := ast.Unparen(as.Rhs[0]).(*ast.SelectorExpr)
				if !ok || wantSel[rs.Sel.Name] == nil || sel.Canon(rs.X) != "$p0" {
					continue
				}
				s := an.Site{Fn: sel, V: v, Node: as}
				lid, _ := ast.Unparen(as.Lhs[0]).(*ast.Ident)
				if lid == nil || (selObj != nil && c17ObjOfIdent(sel, lid) != selObj) {
					o.FailAt(sel.ID+"#selected-variable", s.Where(), "the signature fields are selected into different places (%s)", an.Text(as))
					continue
				}
				selObj = c17ObjOfIdent(sel, lid)
				seen[rs.Sel.Name]++
				got := c17f4CanonGuards(sel, s)
				o.Site("selectAndExtractSig selects %s under %v", rs.Sel.Name, got)
				if !c17f4SameSet(got, wantSel[rs.Sel.Name]) {
					o.FailAt(sel.ID+"#selects-"+rs.Sel.Name, s.Where(), "the %s signature is selected under %v, expected %v", rs.Sel.Name, got, wantSel[rs.Sel.Name])
				}
			}
			for k := range wantSel {
				if seen[k] != 1 {
					o.FailAt(sel.ID+"#selects-"+k, sel.Where(sel.Body.Pos()), "expected exactly one selection of the %s signature, found %d", k, seen[k])
				}
			}
			if selObj != nil {
				for _, w := range c17WritesOf(sel, selObj) {
					as, isAs := w.Node.(*ast.AssignStmt)
					isTabled := false
					if isAs && len(as.Rhs) == 1 {
						if rs, ok := ast.Unparen(as.Rhs[0]).(*ast.SelectorExpr); ok && wantSel[rs.Sel.Name] != nil {
							isTabled = true
						}
					}
					if w.Tok == token.VAR && w.Rhs == nil {
						isTabled = true
					}
					if !isTabled {
						o.FailAt(sel.ID+"#selected-variable-written", sel.Where(w.Node.Pos()), "the selected signature field is also written by %s", an.Text(w.Node))
					}
				}
			}
			// the no-closee report: result #2 of every exit that can succeed
			var repObj types.Object
			for _, s := range sel.SuccessReturns() {
				rs, _ := s.Node.(*ast.ReturnStmt)
				if rs == nil || len(rs.Results) != 4 {
					o.FailAt(sel.ID+"#exit-shape", s.Where(), "cannot read the results returned at %s", s.String())
					continue
				}
				id, _ := ast.Unparen(rs.Results[2]).(*ast.Ident)
				if id == nil || (repObj != nil && c17ObjOfIdent(sel, id) != repObj) {
					o.FailAt(sel.ID+"#no-closee-report", s.Where(), "selectAndExtractSig reports no-closee-output as %s", an.Text(rs.Results[2]))
					continue
				}
				repObj = c17ObjOfIdent(sel, id)
			}
			if _, isVar := repObj.(*types.Var); !isVar {
				o.FailAt(sel.ID+"#no-closee-report", sel.Where(sel.Body.Pos()), "cannot identify the variable selectAndExtractSig reports no-closee-output in")
			} else {
				nTrue := 0
				for _, w := range c17WritesOf(sel, repObj) {
					if w.Tok == token.VAR && w.Rhs == nil {
						continue
					}
					s, inGraph := c17SiteOfNode(sel, w.Node)
					if !inGraph || !w.Whole || w.Tuple || w.Rhs == nil || w.Tok != token.ASSIGN {
						o.FailAt(sel.ID+"#no-closee-report-written", sel.Where(w.Node.Pos()), "the no-closee-output report is written by %s", an.Text(w.Node))
						continue
					}
					got := c17f4CanonGuards(sel, s)
					o.Site("no-closee-output report: %s under %v", an.Text(w.Node), got)
					switch {
					case an.BoolConst(true)(sel, ast.Unparen(w.Rhs)):
						nTrue++
						if !c17f4SameSet(got, []string{dust}) {
							o.FailAt(sel.ID+"#no-closee-report-true", s.Where(), "no-closee-output is reported under %v, expected exactly when the local output is dust", got)
						}
					case an.BoolConst(false)(sel, ast.Unparen(w.Rhs)):
						if len(c17f4Minus([]string{"!" + dust}, got)) != 0 {
							o.FailAt(sel.ID+"#no-closee-report-false", s.Where(), "no-closee-output is cleared under %v, expected only when the local output is not dust", got)
						}
					default:
						o.FailAt(sel.ID+"#no-closee-report-written", s.Where(), "the no-closee-output report is set to %s", an.Text(w.Rhs))
					}
				}
				if nTrue != 1 {
					o.FailAt(sel.ID+"#no-closee-report-true", sel.Where(sel.Body.Pos()), "expected exactly one place that reports no-closee-output, found %d", nTrue)
				}
			}

			// the extractor hands the report on
			ext := p.Func(cc + "extractSigAndNonceFromClosingComplete")
			sc := ext.Calls(an.CalleeIs(sel.ID), false)
			if needExactly(o, ext, "selectAndExtractSig", sc, 1) {
				a := ext.ArgCanon(sc[0])
				o.Site("selectAndExtractSig(%s)", strings.Join(a, ", "))
				if len(a) != 2 || a[0] != cc+"parseSigFields($p0)" || a[1] != "$p1" {
					o.FailAt(ext.ID+"#select-args", sc[0].Where(), "selectAndExtractSig is called with (%s), expected (parseSigFields(<the message>), localIsDust)", strings.Join(a, ", "))
				}
				notReassigned(o, ext, c17ParamNames(ext, 0, 1, 2)...)
				for _, s := range ext.SuccessReturns() {
					rs, _ := s.Node.(*ast.ReturnStmt)
					if rs == nil || len(rs.Results) != 4 {
						o.FailAt(ext.ID+"#exit-shape", s.Where(), "cannot read the results returned at %s", s.String())
						continue
					}
					id, _ := ast.Unparen(rs.Results[2]).(*ast.Ident)
					var call *ast.CallExpr
					idx := -1
					if id != nil {
						call, idx = ext.UniqueCallDef(id)
					}
					if call == nil || call != sc[0].Node || idx != 2 {
						o.FailAt(ext.ID+"#no-closee-report", s.Where(), "extractSigAndNonceFromClosingComplete reports no-closee-output as %s, expected result #2 of selectAndExtractSig", an.Text(rs.Results[2]))
					}
				}
			}

			// the answer
			rem := p.Func(cc + "RemoteCloseStart.ProcessEvent")
			msgFn := p.Func(cc + "createClosingSigMessage")
			ms := rem.Calls(an.CalleeIs(msgFn.ID), false)
			mp := msgFn.Params(false)
			if needExactly(o, rem, "createClosingSigMessage", ms, 1) && len(mp) == 9 && len(ms[0].Node.(*ast.CallExpr).Args) == 9 {
				mc := ms[0].Node.(*ast.CallExpr)
				// argument 7: result #2 of the extractor
				id7, _ := ast.Unparen(mc.Args[7]).(*ast.Ident)
				var call *ast.CallExpr
				idx := -1
				if id7 != nil {
					call, idx = rem.UniqueCallDef(id7)
				}
				if call == nil || idx != 2 || an.CalleeID(rem.Info(), call) != ext.ID {
					o.FailAt(rem.ID+"#answer-no-closee", ms[0].Where(), "createClosingSigMessage is told no-closee-output = %s, expected the report (#2) of extractSigAndNonceFromClosingComplete", an.Text(mc.Args[7]))
				}
				// argument 8: the condition of the omission option
				var omitAt []an.Site
				for _, s := range rem.Calls(an.CalleeIs(lw+"WithOmittedRemoteCloseOutput"), false) {
					omitAt = append(omitAt, s)
				}
				id8, _ := ast.Unparen(mc.Args[8]).(*ast.Ident)
				if len(omitAt) != 1 {
					o.FailAt(rem.ID+"#omission-option", rem.Where(rem.Body.Pos()), "expected exactly one place that omits the closer's output in %s, found %d", rem.ID, len(omitAt))
				} else {
					gs := c17f4IdentGuardsOf(rem, omitAt[0])
					o.Site("the closer's output is omitted under %d identifier conditions; the answer is told %s", len(gs), an.Text(mc.Args[8]))
					if id8 == nil || len(gs) != 1 || c17ObjOfIdent(rem, gs[0]) != c17ObjOfIdent(rem, id8) {
						o.FailAt(rem.ID+"#answer-no-closer", ms[0].Where(), "createClosingSigMessage is told no-closer-output = %s, which is not the condition under which the closer's output was left out of the signed transaction", an.Text(mc.Args[8]))
					}
				}
			} else if len(mp) != 9 {
				o.FailAt(msgFn.ID+"#params", msgFn.Where(msgFn.Body.Pos()), "createClosingSigMessage has %d parameters, the rule knows 9", len(mp))
				return
			}
			// the fields of the answer
			const noClosee, noCloser = "$p7", "$p8"
			wantAns := map[string][]string{
				"CloserNoClosee":  {noClosee},
				"NoCloserClosee":  {"!" + noClosee, noCloser},
				"CloserAndClosee": {"!" + noClosee, "!" + noCloser},
			}
			count := map[string]int{}
			for _, v := range msgFn.Graph().V {
				as, ok := v.Node.(*ast.AssignStmt)
				if !ok || len(as.Lhs) != 1 {
					continue
				}
				ls, ok := ast.Unparen(as.Lhs[0]).(*ast.SelectorExpr)
				if !ok || wantAns[ls.Sel.Name] == nil {
					continue
				}
				s := an.Site{Fn: msgFn, V: v, Node: as}
				var got []string
				taproot := ""
				for _, g := range c17f4CanonGuards(msgFn, s) {
					switch {
					case strings.TrimPrefix(g, "!") == "$p0.IsTaproot()":
						taproot = g
					case strings.Contains(g, noClosee) || strings.Contains(g, noCloser):
						got = append(got, g)
					}
				}
				count[ls.Sel.Name+"|"+taproot]++
				o.Site("closing_sig field %s (%s) set under %v", ls.Sel.Name, taproot, got)
				if !c17f4SameSet(got, wantAns[ls.Sel.Name]) {
					o.FailAt(msgFn.ID+"#answers-"+ls.Sel.Name, s.Where(), "the closee's signature is put into %s under %v, expected %v", ls.Sel.Name, got, wantAns[ls.Sel.Name])
				}
			}
			for k := range wantAns {
				n := 0
				for key, c := range count {
					if strings.HasPrefix(key, k+"|") && strings.Contains(key, "IsTaproot()") {
						n += c
					}
				}
				if n != 2 {
					o.FailAt(msgFn.ID+"#answers-"+k, msgFn.Where(msgFn.Body.Pos()), "expected the %s field to be set once for taproot and once for regular channels, found %d places", k, n)
				}
			}
		})

	// ------------------------------------------------------------ e946472
	r.Obl("dust-predicates-negate-the-builders-keep-condition", "MIRROR",
		"LocalBalanceDust / RemoteBalanceDust return `credited balance < dust limit` where CreateCooperativeCloseTx keeps the output iff `balance >= dust limit` (the exact negation, same operand order), the dust limit is the one CreateCloseProposal hands the builder for that party when the script-dust-limits option is not set - the limit of that party coopCloseDustLimits, whose results the proposal passes on in order, returns for the channel basis; the legacy closer, the only user of these predicates, never sets that option - (and is the second result), and the credited balance is that party's commitment balance plus, exactly when that party is the channel initiator, the commitment fee and, exactly when the channel has anchors as well, the anchor credit of CoopCloseBalance; nothing else writes the balance",
		"the legacy closer sizes its ideal and maximum fee from these predicates: a predicate that disagrees with the builder (raw balance, or `<=`) prices a transaction with one output fewer or more than the one that is signed", 10,
		func(o *an.Obl) {
			b := p.Func(lw + "CreateCooperativeCloseTx")
			prop := p.Func(lc + "CreateCloseProposal")
			tx := prop.Calls(an.CalleeIs(b.ID), false)
			if !needExactly(o, prop, "CreateCooperativeCloseTx", tx, 1) {
				return
			}
			// the dust limits the builder is handed without the script-dust-limits
			// option: the channel basis of coopCloseDustLimits, whose results
			// the proposal passes on in order
			_, legacyBasis, okBases := c17f5DustBases(p)
			if !okBases {
				o.FailAt(c17f5Helper+"#dust-bases", "", "cannot read the dust limits coopCloseDustLimits returns when the script-dust-limits option is not set (one return under each outcome of the one test of that flag)")
				return
			}
			var txArgs [3]string
			for idx := 1; idx <= 2; idx++ {
				id, _ := ast.Unparen(tx[0].Node.(*ast.CallExpr).Args[idx]).(*ast.Ident)
				var call *ast.CallExpr
				k := -1
				if id != nil {
					call, k = prop.UniqueCallDef(id)
				}
				if call == nil || k != idx-1 || an.CalleeID(prop.Info(), call) != c17f5Helper {
					o.FailAt(prop.ID+"#builder-limit-"+fmt.Sprint(idx), tx[0].Where(), "CreateCloseProposal hands the builder %s as dust limit (argument %d), expected result #%d of coopCloseDustLimits", prop.Canon(tx[0].Node.(*ast.CallExpr).Args[idx]), idx, idx-1)
					return
				}
				txArgs[idx] = legacyBasis[idx-1]
			}
			o.Site("without the script-dust-limits option the builder is handed (%s, %s)", txArgs[1], txArgs[2])
			// the users of the predicates never build by the script basis
			if obj := p.LookupObj("lnwallet", "WithScriptDustLimits"); obj != nil {
				for _, ref := range p.RefsTo(obj, false) {
					if ref.Fn != nil && strings.HasPrefix(ref.Fn.Root().ID, "lnwallet/chancloser.ChanCloser.") {
						o.FailAt(ref.Fn.Root().ID+"#legacy-closer-sets-script-dust-limits", ref.Where, "%s places the script-dust-limits option: the legacy closer prices its fee by LocalBalanceDust / RemoteBalanceDust, which judge by the channel's dust limits", ref.Fn.Root().ID)
					}
				}
			}
			// the anchor credit of CoopCloseBalance
			anchor := ""
			cb := p.Func(lw + "CoopCloseBalance")
			for _, v := range cb.Graph().V {
				as, ok := v.Node.(*ast.AssignStmt)
				if !ok || as.Tok != token.ADD_ASSIGN || len(as.Rhs) != 1 {
					continue
				}
				s := an.Site{Fn: cb, V: v, Node: as}
				if ok, _ := cb.Guarded(s, an.Truth(an.CallNamed("HasAnchors", an.Param(0)), true, "")); ok {
					anchor = cb.Canon(as.Rhs[0])
				}
			}
			if anchor == "" {
				o.FailAt(cb.ID+"#anchor-credit", cb.Where(cb.Body.Pos()), "cannot find the anchor credit of CoopCloseBalance")
				return
			}
			o.Site("CoopCloseBalance credits %s for anchor channels", anchor)
			// keep conditions of the builder: have<X>Output := balance >= dust
			type keep struct {
				op        token.Token
				bal, dust int // parameter positions
			}
			keeps := map[string]keep{}
			ops, _ := c17BuilderKeeps(b)
			if op, ok := ops["Local"]; ok {
				keeps["Local"] = keep{op, 3, 1}
			}
			if op, ok := ops["Remote"]; ok {
				keeps["Remote"] = keep{op, 4, 2}
			}
			neg := map[token.Token]token.Token{token.GEQ: token.LSS, token.GTR: token.LEQ, token.LEQ: token.GTR, token.LSS: token.GEQ}
			for _, side := range []struct {
				party, fn, commitment string
				initiator             bool
			}{
				{"Local", "LocalBalanceDust", "LocalCommitment", true},
				{"Remote", "RemoteBalanceDust", "RemoteCommitment", false},
			} {
				f := p.Func(lc + side.fn)
				k, ok := keeps[side.party]
				if !ok {
					o.FailAt(b.ID+"#keep-"+side.party, b.Where(b.Body.Pos()), "cannot find the condition `balance <op> dust limit` under which the builder keeps the %s output", strings.ToLower(side.party))
					continue
				}
				o.Site("the builder keeps the %s output iff $p%d %s $p%d", strings.ToLower(side.party), k.bal, k.op, k.dust)
				dustCanon := txArgs[k.dust]
				cs := "$recv.channelState."
				var balObj types.Object
				for _, s := range f.Returns() {
					rs, _ := s.Node.(*ast.ReturnStmt)
					if rs == nil || len(rs.Results) != 2 {
						o.FailAt(f.ID+"#exit-shape", s.Where(), "cannot read the results returned at %s", s.String())
						continue
					}
					be, isBin := ast.Unparen(rs.Results[0]).(*ast.BinaryExpr)
					if !isBin {
						o.FailAt(f.ID+"#verdict", s.Where(), "%s returns %s, expected a comparison of the credited balance with the dust limit", side.fn, an.Text(rs.Results[0]))
						continue
					}
					o.Site("%s returns %s, %s", side.fn, f.Canon(be), f.Canon(rs.Results[1]))
					if be.Op != neg[k.op] {
						o.FailAt(f.ID+"#verdict-operator", s.Where(), "%s says dust iff balance %s limit, but the builder keeps the output iff balance %s limit: the predicate must be the exact negation (%s)", side.fn, be.Op, k.op, neg[k.op])
					}
					if c := f.Canon(be.Y); c != dustCanon {
						o.FailAt(f.ID+"#verdict-limit", s.Where(), "%s compares with %s, but the builder is handed %s as the %s dust limit", side.fn, c, dustCanon, strings.ToLower(side.party))
					}
					if c := f.Canon(rs.Results[1]); c != dustCanon {
						o.FailAt(f.ID+"#returned-limit", s.Where(), "%s returns %s as the dust limit, expected %s", side.fn, c, dustCanon)
					}
					id, _ := ast.Unparen(be.X).(*ast.Ident)
					if id == nil {
						o.FailAt(f.ID+"#verdict-balance", s.Where(), "%s compares %s, expected the local that holds the credited balance", side.fn, an.Text(be.X))
						continue
					}
					balObj = c17ObjOfIdent(f, id)
				}
				if _, isVar := balObj.(*types.Var); !isVar {
					continue
				}
				initGuard := cs + "IsInitiator"
				anchorGuard := cs + "ChanType.HasAnchors()"
				initWant := initGuard
				if !side.initiator {
					initWant = "!" + initGuard
				}
				nDef, nFee, nAnchor := 0, 0, 0
				for _, w := range c17WritesOf(f, balObj) {
					s, inGraph := c17SiteOfNode(f, w.Node)
					if !inGraph || !w.Whole || w.Tuple || w.Rhs == nil {
						o.FailAt(f.ID+"#balance-write", f.Where(w.Node.Pos()), "%s: unexpected write of the balance: %s", side.fn, an.Text(w.Node))
						continue
					}
					rc := f.Canon(w.Rhs)
					gs := c17f4CanonGuards(f, s)
					o.Site("%s: %s (rhs %s) under %v", side.fn, an.Text(w.Node), rc, gs)
					switch {
					case (w.Tok == token.DEFINE || w.Tok == token.VAR) && rc == cs+side.commitment+"."+side.party+"Balance.ToSatoshis()":
						nDef++
					case w.Tok == token.ADD_ASSIGN && rc == cs+side.commitment+".CommitFee":
						nFee++
						if !c17f4SameSet(gs, []string{initWant}) {
							o.FailAt(f.ID+"#commit-fee-credit", s.Where(), "%s credits the commitment fee under %v, expected exactly %s (the initiator gets it back, as in CoopCloseBalance)", side.fn, gs, initWant)
						}
					case w.Tok == token.ADD_ASSIGN && rc == anchor:
						nAnchor++
						if !c17f4SameSet(gs, []string{initWant, anchorGuard}) {
							o.FailAt(f.ID+"#anchor-credit", s.Where(), "%s credits the anchors under %v, expected exactly %v", side.fn, gs, []string{initWant, anchorGuard})
						}
					default:
						o.FailAt(f.ID+"#balance-write", s.Where(), "%s: the balance is written by %s; tabled are its definition from the %s, `+= commit fee` and `+= %s`", side.fn, an.Text(w.Node), side.commitment, anchor)
					}
				}
				if nDef != 1 || nFee != 1 || nAnchor != 1 {
					o.FailAt(f.ID+"#credits", f.Where(f.Body.Pos()), "%s: expected one definition of the balance, one commit fee credit and one anchor credit, found %d / %d / %d", side.fn, nDef, nFee, nAnchor)
				}
			}
		})

	// ------------------------------------------------------------ ed63cf9
	r.Obl("refused-event-leaves-the-shared-close-terms-unchanged", "PATH",
		"ClosingNegotiation.ProcessEvent saves, before it calls updateAndValidateCloseTerms, every field of the shared close terms that function assigns; updateAndValidateCloseTerms never fails after it has assigned one; every return of ProcessEvent after the update succeeded goes through one function literal that hands its (transition, error) arguments back unchanged and, exactly when the error is not nil, assigns each saved value back to its field",
		"the close terms are shared by both halves of the negotiation: a delivery script taken from an offer that is then refused (fee the peer cannot pay, bad signature) would be used for our own next closing_complete and for the check of the peer's next offer", 6,
		func(o *an.Obl) {
			upd := p.Func(cc + "ClosingNegotiation.updateAndValidateCloseTerms")
			f := p.Func(cc + "ClosingNegotiation.ProcessEvent")
			// fields the update writes
			written := map[string]bool{}
			for _, fn := range append([]*an.Func{upd}, upd.Lits...) {
				ast.Inspect(fn.Body, func(n ast.Node) bool {
					var lhs []ast.Expr
					switch x := n.(type) {
					case *ast.AssignStmt:
						if x.Tok != token.DEFINE {
							lhs = x.Lhs
						}
					case *ast.IncDecStmt:
						lhs = []ast.Expr{x.X}
					}
					for _, l := range lhs {
						if _, isSel := ast.Unparen(l).(*ast.SelectorExpr); isSel {
							if c := fn.Canon(l); strings.HasPrefix(c, "$recv.") {
								written[c] = true
								if s, ok := c17SiteOfNode(upd, n); ok {
									// no failure after the write
									after := c17StrictlyAfter(upd.Graph(), s.V)
									for _, r := range upd.Returns() {
										if after[r.V] && upd.ClassifyReturn(r) != an.RetSuccess {
											o.FailAt(upd.ID+"#fails-after-write", r.Where(), "updateAndValidateCloseTerms can still fail at %s after it assigned %s", r.String(), c)
										}
									}
								} else {
									o.FailAt(upd.ID+"#write-in-literal", fn.Where(n.Pos()), "updateAndValidateCloseTerms assigns %s inside a function literal", c)
								}
							}
						}
					}
					return true
				})
			}
			var fields []string
			for c := range written {
				fields = append(fields, c)
			}
			sort.Strings(fields)
			o.Site("updateAndValidateCloseTerms assigns %v", fields)
			if len(fields) == 0 {
				o.FailAt(upd.ID+"#no-writes", upd.Where(upd.Body.Pos()), "updateAndValidateCloseTerms assigns no field of the close terms: the rule lost its anchor")
				return
			}
			calls := f.Calls(an.CalleeIs(upd.ID), false)
			if !needExactly(o, f, "updateAndValidateCloseTerms", calls, 1) {
				return
			}
			// the saved copies
			saved := map[string]types.Object{}
			for _, v := range f.Graph().V {
				as, ok := v.Node.(*ast.AssignStmt)
				if !ok || as.Tok != token.DEFINE || len(as.Lhs) != 1 || len(as.Rhs) != 1 {
					continue
				}
				c := f.Canon(as.Rhs[0])
				id, _ := as.Lhs[0].(*ast.Ident)
				if !written[c] || id == nil || f.UniqueDef(id) == nil {
					continue
				}
				s := an.Site{Fn: f, V: v, Node: as}
				if f.Before([]an.Site{s}, calls[0]) && !c17StrictlyAfter(f.Graph(), calls[0].V)[v] {
					saved[c] = c17ObjOfIdent(f, id)
					o.Site("%s saved by %s before the update", c, s.String())
				}
			}
			for _, c := range fields {
				if saved[c] == nil {
					o.FailAt(f.ID+"#not-saved-"+c, calls[0].Where(), "%s is assigned by updateAndValidateCloseTerms but ProcessEvent keeps no copy taken before the call (a local defined once from it on every path to the call)", c)
				}
			}
			// the restoring literal: returns after the successful update
			es, _ := f.OkEdges(calls[0], an.OkErrNil)
			after := map[*flow.Vertex]bool{}
			for e := range es {
				for v := range f.Graph().Reach(e.To, nil, nil) {
					after[v] = true
				}
			}
			var restorer types.Object
			var restorerLit *ast.FuncLit
			n := 0
			for _, s := range f.Returns() {
				if !after[s.V] {
					continue
				}
				n++
				rs, _ := s.Node.(*ast.ReturnStmt)
				var call *ast.CallExpr
				if rs != nil && len(rs.Results) == 1 {
					call, _ = ast.Unparen(rs.Results[0]).(*ast.CallExpr)
				}
				var id *ast.Ident
				if call != nil {
					id, _ = ast.Unparen(call.Fun).(*ast.Ident)
				}
				var lit *ast.FuncLit
				if id != nil {
					if d := f.UniqueDef(id); d != nil {
						lit, _ = ast.Unparen(d).(*ast.FuncLit)
					}
				}
				if lit == nil || (restorer != nil && c17ObjOfIdent(f, id) != restorer) {
					where := f.Where(f.Body.Rbrace)
					txt := "<implicit return>"
					if rs != nil {
						where, txt = s.Where(), an.Text(rs)
					}
					o.FailAt(f.ID+"#return-without-restore", where, "after the close terms were updated ProcessEvent returns by %s, not through the function literal that puts the saved terms back when the event is refused", txt)
					continue
				}
				restorer, restorerLit = c17ObjOfIdent(f, id), lit
				o.Site("%s returns through the restoring literal", s.String())
			}
			if n == 0 || restorerLit == nil {
				o.FailAt(f.ID+"#no-restoring-return", f.Where(f.Body.Pos()), "found no return of ProcessEvent behind the successful update that goes through a restoring literal")
				return
			}
			lf := f.LitFunc(restorerLit)
			lp := lf.Params(false)
			if len(lp) != 2 || lp[0] == nil || lp[1] == nil || !an.IsErrorType(lp[1].Type()) {
				o.FailAt(f.ID+"#restorer-shape", f.Where(restorerLit.Pos()), "the restoring literal does not take (transition, error)")
				return
			}
			notReassigned(o, lf, lp[0].Name(), lp[1].Name())
			for _, s := range lf.Returns() {
				rs, _ := s.Node.(*ast.ReturnStmt)
				if rs == nil || len(rs.Results) != 2 || !c17ObjTerm(lp[0])(lf, ast.Unparen(rs.Results[0])) || !c17ObjTerm(lp[1])(lf, ast.Unparen(rs.Results[1])) {
					o.FailAt(f.ID+"#restorer-results", s.Where(), "the restoring literal does not hand back its (transition, error) arguments unchanged at %s", s.String())
				}
			}
			errNotNil := an.IsNil(c17ObjTerm(lp[1]), false, "err != nil")
			restored := map[string]bool{}
			for _, v := range lf.Graph().V {
				as, ok := v.Node.(*ast.AssignStmt)
				if !ok || as.Tok != token.ASSIGN || len(as.Lhs) != 1 || len(as.Rhs) != 1 {
					continue
				}
				c := lf.Canon(as.Lhs[0])
				if !written[c] {
					continue
				}
				s := an.Site{Fn: lf, V: v, Node: as}
				rid, _ := ast.Unparen(as.Rhs[0]).(*ast.Ident)
				if rid == nil || saved[c] == nil || c17ObjOfIdent(lf, rid) != saved[c] {
					o.FailAt(f.ID+"#restores-other-value-"+c, s.Where(), "the restoring literal sets %s to %s, expected the copy saved before the update", c, an.Text(as.Rhs[0]))
					continue
				}
				guarded(o, lf, s, errNotNil)
				if gs := lf.GuardsAt(s); len(gs) != 1 {
					o.FailAt(f.ID+"#restore-extra-guard-"+c, s.Where(), "the restoring literal puts %s back under %v, expected exactly `error != nil`", c, gs)
				}
				restored[c] = true
			}
			for _, c := range fields {
				if !restored[c] {
					o.FailAt(f.ID+"#not-restored-"+c, f.Where(restorerLit.Pos()), "the restoring literal does not put %s back when the event is refused", c)
				}
			}
			// the saved copies and the literal are not changed
			for _, obj := range saved {
				if obj != nil {
					notReassigned(o, f, obj.Name())
				}
			}
		})

	// ------------------------------------------------------------ 89eaaa8
	c17f4PeerBalances(r)
}

// c17f4InList reports whether the constructor call ctor is an element of a
// literal / append that is assigned to the variable id names.
func c17f4InList(f *an.Func, id *ast.Ident, ctor *ast.CallExpr) bool {
	obj := c17ObjOfIdent(f, id)
	for _, w := range c17WritesOf(f, obj) {
		if w.Rhs == nil {
			continue
		}
		found := false
		ast.Inspect(w.Rhs, func(n ast.Node) bool {
			if n == ast.Node(ctor) {
				found = true
			}
			return !found
		})
		if found {
			return true
		}
	}
	return false
}
