package spec

import (
	"go/ast"
	"strings"

	"lndlint/internal/an"
	"lndlint/internal/flow"
)

// c03CanonGuards lists the conditions (canonical form, "!" prefix for the
// false edge) that hold on every path to s.
func c03CanonGuards(f *an.Func, s an.Site) []string {
	g := f.Graph()
	var out []string
	for _, v := range g.V {
		if v.Kind != flow.KCond && v.Kind != flow.KCase {
			continue
		}
		for _, e := range v.Out {
			if e.Kind != flow.ETrue && e.Kind != flow.EFalse {
				continue
			}
			if g.Reach(g.Entry, flow.EdgeSet{e: true}, nil)[s.V] {
				continue
			}
			c := f.AtomCanon(v)
			if e.Kind == flow.EFalse {
				c = "!" + c
			}
			out = append(out, c)
		}
	}
	return out
}

// c03OnlyGuards: the site is restricted by nothing but the listed conditions
// (regular expressions on the canonical forms): a verdict that must be given
// whenever its documented condition holds must not get an extra conjunct.
func c03OnlyGuards(o *an.Obl, f *an.Func, s an.Site, allowed []string, what string) {
	for _, g := range c03CanonGuards(f, s) {
		ok := false
		for _, re := range allowed {
			ok = ok || reMatch(re, g)
		}
		o.Site("%s: %s holds below %s", what, s.String(), g)
		if !ok {
			o.FailAt(constructOf(f, s)+"#"+what+"-extra-condition", s.Where(), "%s: %s is additionally restricted by %s; the documented conditions are %v", what, s.String(), g, allowed)
		}
	}
}

// c03MessageList: the list of messages ProcessChanSyncMsg returns.  It is one
// variable; it is only ever extended (the owed revocation, the re-signed
// commitment of the revoke-then-sign edge case) or merged with the
// retransmitted commitment; the revocation that was generated is appended on
// every path that goes on, and a failed generation ends the function.
func c03MessageList(o *an.Obl, f *an.Func) {
	var obj interface{}
	rets := f.StrictSuccessReturns()
	for _, r := range rets {
		rs := r.Node.(*ast.ReturnStmt)
		ob := c02ObjOf(f, rs.Results[0])
		if ob == nil || (obj != nil && obj != ob) {
			o.FailAt(f.ID+"#returned-list", r.Where(), "the success returns of ProcessChanSyncMsg must all return the one accumulated message list, found %s", an.Text(rs.Results[0]))
			return
		}
		obj = ob
	}
	if len(rets) == 0 {
		o.FailAt(f.ID+"#returned-list", f.Where(f.Body.Pos()), "ProcessChanSyncMsg has no success return")
		return
	}
	apps, others := c02AppendsTo(f, c02ObjOf(f, rets[0].Node.(*ast.ReturnStmt).Results[0]))
	var rev, sig, merge []an.Site
	for _, a := range apps {
		c := ""
		if len(a.operands) == 1 {
			c = f.Canon(a.operands[0])
		}
		o.Site("message list <- append(.., %s) at %s", c, a.site.Where())
		switch {
		case !a.ellipsis && reMatch(`^\$recv\.generateRevocation\(`, c):
			rev = append(rev, a.site)
		case !a.ellipsis && reMatch(`^&lnwire\.CommitSig\{.*CommitSig: \$recv\.SignNextCommitment\(\$p0\)\.CommitSig, HtlcSigs: \$recv\.SignNextCommitment\(\$p0\)\.HtlcSigs, PartialSig: \$recv\.SignNextCommitment\(\$p0\)\.PartialSig, `, c):
			sig = append(sig, a.site)
		case a.ellipsis && len(a.operands) == 1:
			merge = append(merge, a.site)
		default:
			o.FailAt(constructOf(f, a.site)+"#appended-message", a.site.Where(), "ProcessChanSyncMsg appends %s to the messages it returns: neither the generated revocation, the re-signed commitment nor the retransmitted commitment", c)
		}
	}
	for _, s := range others {
		as, ok := s.Node.(*ast.AssignStmt)
		fine := false
		if ok && len(as.Rhs) == 1 {
			if c, isCall := ast.Unparen(as.Rhs[0]).(*ast.CallExpr); isCall && isAppend(f, c) && c.Ellipsis.IsValid() && len(c.Args) == 2 && c02ObjOf(f, c.Args[1]) == c02ObjOf(f, as.Lhs[0]) {
				fine = true // append(commitUpdates, updates...)
				merge = append(merge, s)
			}
		}
		if !fine {
			o.FailAt(constructOf(f, s)+"#message-list-overwritten", s.Where(), "ProcessChanSyncMsg overwrites the messages accumulated so far: %s", s.String())
		}
	}
	gen := f.Calls(an.CalleeIs(lw+"LightningChannel.generateRevocation"), false)
	if !needExactly(o, f, "generateRevocation", gen, 1) || !needExactly(o, f, "append of the generated revocation", rev, 1) {
		return
	}
	needExactly(o, f, "append of the re-signed commitment", sig, 1)
	needExactly(o, f, "merge with the retransmitted commitment", merge, 2)
	succ := f.SuccessReturns()
	mustDoUnlessFrom(o, f, gen[0].V, "append of the generated revocation", rev, succ)
	failureStops(o, f, "generateRevocation", gen, an.OkErrNil, succ, "a success return")
	mustPass(o, f, "generateRevocation", gen, an.OkErrNil, rev)
	c02ParamsStable(o, f)
}

// c03RevocationDataflow: inside generateRevocation the secret derived for the
// revoked height is what is copied into the message and the point derived
// from the secret two heights later is what is announced.
func c03RevocationDataflow(o *an.Obl, p *an.Prog) {
	h := p.Func(lw + "LightningChannel.generateRevocation")
	c02ParamsStable(o, h)
	const producer = `\$recv\.channelState\.RevocationProducer\.AtIndex`
	var copies []an.Site
	for _, s := range h.Calls(an.CalleeIs("builtin.copy"), false) {
		a := h.ArgCanon(s)
		if strings.HasSuffix(a[0], ".Revocation[:]") {
			copies = append(copies, s)
			o.Site("RevokeAndAck.Revocation <- %s", a[1])
			if !reMatch(`^&lnwire\.RevokeAndAck\{\}\.Revocation\[:\]$`, a[0]) || !reMatch(`^`+producer+`\(\$p0\)\[:\]$`, a[1]) {
				o.FailAt(h.ID+"#revocation-source", s.Where(), "generateRevocation copies %s into %s, expected the secret AtIndex(height) into the message's Revocation", a[1], a[0])
			}
		}
	}
	next := h.Assigns(an.Field("lnwire.RevokeAndAck", "NextRevocationKey", nil), false)
	if needExactly(o, h, "copy into RevokeAndAck.Revocation", copies, 1) && needExactly(o, h, "assignment of NextRevocationKey", next, 1) {
		as := next[0].Node.(*ast.AssignStmt)
		c := h.Canon(as.Rhs[0])
		o.Site("RevokeAndAck.NextRevocationKey <- %s", c)
		if !reMatch(`^input\.ComputeCommitmentPoint\(`+producer+`\(\(\$p0 \+ 2\)\)\[:\]\)$`, c) || !reMatch(`^&lnwire\.RevokeAndAck\{\}\.NextRevocationKey$`, h.Canon(as.Lhs[0])) {
			o.FailAt(h.ID+"#next-point-source", next[0].Where(), "generateRevocation sets %s to %s, expected the commitment point of the secret AtIndex(height+2)", h.Canon(as.Lhs[0]), c)
		}
		succ := h.StrictSuccessReturns()
		mustDoUnless(o, h, "copy into RevokeAndAck.Revocation", copies, succ)
		mustDoUnless(o, h, "assignment of NextRevocationKey", next, succ)
		for _, r := range succ {
			if c := h.Canon(r.Node.(*ast.ReturnStmt).Results[0]); c != "&lnwire.RevokeAndAck{}" {
				o.FailAt(h.ID+"#returned-message", r.Where(), "generateRevocation returns %s, expected the message it filled in", c)
			}
		}
	}
}

// c03RetransmittedCommitment: the details of the owe-commitment arm that the
// order/append rules do not see: every stored update is retransmitted, the
// re-signed transaction is the stored diff's, its fresh partial signature is
// put into the CommitSig that is sent, and failed steps end the function.
func c03RetransmittedCommitment(o *an.Obl, f *an.Func, tip, resign, cu []an.Site) {
	const diff = `\$recv\.channelState\.RemoteCommitChainTip\(\)`
	succ := f.SuccessReturns()
	failureStops(o, f, "RemoteCommitChainTip", tip, an.OkErrNil, succ, "a success return")
	failureStops(o, f, "resignMusigCommit", resign, an.OkErrNil, succ, "a success return")
	if len(cu) == 2 {
		everyIteration(o, f, `^`+diff+`\.LogUpdates$`, cu[:1], "append of the update message")
		loopVisitsAll(o, f, `^`+diff+`\.LogUpdates$`)
		if as, ok := cu[0].Node.(*ast.AssignStmt); ok {
			if c := f.Canon(as.Rhs[0]); !reMatch(`^append\(.*, \$elem\(`+diff+`\.LogUpdates\)\.UpdateMsg\)$`, c) {
				o.FailAt(f.ID+"#retransmitted-update", cu[0].Where(), "the retransmission loop appends %s, expected the UpdateMsg of each stored log update", c)
			}
		}
		if as, ok := cu[1].Node.(*ast.AssignStmt); ok {
			if c := f.Canon(as.Rhs[0]); !reMatch(`^append\(.*, `+diff+`\.CommitSig\)$`, c) {
				o.FailAt(f.ID+"#retransmitted-sig", cu[1].Where(), "the retransmitted signature is %s, expected the stored diff's CommitSig", c)
			}
		}
	}
	if len(resign) != 1 || len(cu) != 2 {
		return
	}
	c02ArgsAre(o, f, resign[0], "resignMusigCommit", map[int]string{0: `^` + diff + `\.Commitment\.CommitTx$`})
	var store []an.Site
	for _, s := range f.Assigns(an.FieldPath(nil, "PartialSig"), false) {
		as, ok := s.Node.(*ast.AssignStmt)
		if !ok || len(as.Lhs) != 1 || len(as.Rhs) != 1 {
			continue
		}
		l, r := f.Canon(as.Lhs[0]), f.Canon(as.Rhs[0])
		if reMatch(`^`+diff+`\.CommitSig\.PartialSig$`, l) {
			store = append(store, s)
			o.Site("retransmitted CommitSig.PartialSig <- %s", r)
			if !reMatch(`^\$recv\.resignMusigCommit\(`, r) {
				o.FailAt(f.ID+"#fresh-partial-sig", s.Where(), "the retransmitted CommitSig.PartialSig is set to %s, expected the result of resignMusigCommit", r)
			}
		}
	}
	if needExactly(o, f, "store of the fresh partial signature into the stored CommitSig", store, 1) {
		mustDoUnlessFrom(o, f, resign[0].V, "store of the fresh partial signature", store, cu[1:])
	}
}

// c03ReestablishSources: the values of the ChannelReestablish literal are the
// locals whose definitions the obligation checks, and the looked-up secret
// really reaches the message.
func c03ReestablishSources(o *an.Obl, f *an.Func, lit *ast.CompositeLit) {
	vals := map[string]ast.Expr{}
	for _, el := range lit.Elts {
		if kv, ok := el.(*ast.KeyValueExpr); ok {
			vals[an.Text(kv.Key)] = kv.Value
		}
	}
	// NextLocalCommitHeight: a local; every value it is given is checked by
	// the caller through its name, so tie the field to that variable
	next := c02ObjOf(f, vals["NextLocalCommitHeight"])
	if next == nil {
		o.FailAt(f.ID+"#field-NextLocalCommitHeight", f.Where(lit.Pos()), "ChannelReestablish.NextLocalCommitHeight is %s, expected the local that holds LocalCommitment.CommitHeight+1", an.Text(vals["NextLocalCommitHeight"]))
	} else {
		var forms []string
		for _, d := range c02XferDefs(f, vals["NextLocalCommitHeight"]) {
			forms = append(forms, f.Canon(d))
		}
		o.Site("ChannelReestablish.NextLocalCommitHeight = %s <- %v", next.Name(), forms)
		if len(forms) != 2 || forms[0] != "($recv.LocalCommitment.CommitHeight + 1)" || forms[1] != "0" {
			o.FailAt(f.ID+"#field-NextLocalCommitHeight", f.Where(lit.Pos()), "ChannelReestablish.NextLocalCommitHeight is the variable %s defined by %v, expected LocalCommitment.CommitHeight+1 (and 0 for restored tweakless channels)", next.Name(), forms)
		}
	}
	// LastRemoteCommitSecret: zero unless the remote height is non-zero, then
	// the looked-up secret
	sec := c02ObjOf(f, vals["LastRemoteCommitSecret"])
	if sec == nil {
		o.FailAt(f.ID+"#field-LastRemoteCommitSecret", f.Where(lit.Pos()), "ChannelReestablish.LastRemoteCommitSecret is %s, expected the local filled from RevocationStore.LookUp", an.Text(vals["LastRemoteCommitSecret"]))
	} else {
		asg := f.Assigns(func(fn *an.Func, e ast.Expr) bool { return c02ObjOf(fn, e) == sec }, false)
		if needExactly(o, f, "assignment of the advertised last commit secret", asg, 1) {
			as, _ := asg[0].Node.(*ast.AssignStmt)
			c := ""
			if as != nil && len(as.Rhs) == 1 {
				c = f.Canon(as.Rhs[0])
			}
			o.Site("ChannelReestablish.LastRemoteCommitSecret <- %s", c)
			if !reMatch(`^\[32\]byte\(\*\$recv\.RevocationStore\.LookUp\(\(\$recv\.RemoteCommitment\.CommitHeight - 1\)\)\)$`, c) {
				o.FailAt(f.ID+"#field-LastRemoteCommitSecret", asg[0].Where(), "the advertised last commit secret is %s, expected the secret RevocationStore.LookUp(remote height - 1) returned", c)
			}
			mustDoUnless(o, f, "copy of the looked-up secret into the message", asg, f.SuccessReturns(),
				an.Cmp(canonTerm(`^\$recv\.RemoteCommitment\.CommitHeight$`), an.EQ, an.IntConst(0), "remote height == 0"))
			mustPass(o, f, "RevocationStore.LookUp", f.Calls(an.CalleeNamed("LookUp"), false), an.OkErrNil, asg)
		}
	}
	if c := f.Canon(vals["LocalUnrevokedCommitPoint"]); c != "input.ComputeCommitmentPoint($recv.RevocationProducer.AtIndex($recv.LocalCommitment.CommitHeight)[:])" {
		o.FailAt(f.ID+"#field-LocalUnrevokedCommitPoint-source", f.Where(lit.Pos()), "ChannelReestablish.LocalUnrevokedCommitPoint is %s, expected the commitment point of RevocationProducer.AtIndex(local height)", c)
	}
	// the literal is what is returned
	for _, r := range f.StrictSuccessReturns() {
		rs := r.Node.(*ast.ReturnStmt)
		if u, ok := ast.Unparen(rs.Results[0]).(*ast.UnaryExpr); !ok || ast.Unparen(u.X) != ast.Expr(lit) {
			o.FailAt(f.ID+"#returned-message", r.Where(), "ChanSyncMsg returns %s, expected the ChannelReestablish literal", an.Text(rs.Results[0]))
		}
	}
}
