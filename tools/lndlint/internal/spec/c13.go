package spec

import (
	"go/ast"
	"go/types"
	"sort"
	"strings"

	"lndlint/internal/an"
)

func init() {
	register(&Spec{
		ID:          "C13",
		Loads:       []LoadSpec{{Patterns: []string{"./contractcourt", "./lnwallet", "./input"}}},
		Explanation: "Decides the structural conditions resumption depends on: the in-memory stage follows the committed one; the stage graph of stateStep is monotone and has the edges every close path needs; after a restart of an already-closed channel every pre-closed stage is re-triggered with the trigger of its close type; resolutions, commit set and close marker are durable before the stage is advanced and resolvers are stored before they run; the channel is declared resolved only below an empty unresolved set; the resolver type tags, constructors and codecs agree; every progress flag set by a resolver is checkpointed before the step returns success; both checkpoint routes rewrite the stored resolver unconditionally; a successor resolver is swapped into the log before it runs and a resolver is deleted only when resolved.",
		NotDecided: []string{
			"equality of outcomes with an uninterrupted run", "idempotence of the effects of a re-executed stage at the switch/sweeper (C07/C08/C18 cover their side)",
			"the utxo nursery's own store (legacy path)",
		},
		Assumptions: commonAssumptions,
		Engines:     "PATH, WHO, TABLE, REG, CODEC, GUARD",
		TagMatrix:   [][]string{{"integration"}},
		Run:         runC13,
	})
}

var arbStateRank = map[string]int{
	"StateDefault": 0, "StateBroadcastCommit": 1, "StateCommitmentBroadcasted": 2,
	"StateContractClosed": 3, "StateWaitingFullResolution": 4, "StateFullyResolved": 5,
}

func runC13(r *an.Run) {
	p := r.Prog
	arb := cc + "ChannelArbitrator."

	r.Obl("stage-committed-before-memory", "PATH",
		"advanceState assigns c.state only the value it has just committed with log.CommitState, on the success edge of that call; the only other writer of the field is Start (loading the stored stage)",
		"a stage held in memory ahead of the log is lost by a restart: effects of the next stage would then be repeated from the older one without their preconditions", 3,
		func(o *an.Obl) {
			f := p.Func(arb + "advanceState")
			ws := f.Assigns(an.Field(cc+"ChannelArbitrator", "state", nil), false)
			if !need(o, f, "c.state assignment", ws, 1) {
				return
			}
			commits := f.Calls(an.CalleeNamed("CommitState"), false)
			mustPass(o, f, "log.CommitState", commits, an.OkErrNil, ws)
			for _, w := range ws {
				rhs := f.Canon(w.Node.(*ast.AssignStmt).Rhs[0])
				for _, c := range commits {
					if a := f.ArgCanon(c); a[0] != rhs {
						o.FailAt(f.ID+"#committed-value", w.Where(), "c.state is set to %s but the committed stage is %s", rhs, a[0])
					}
				}
			}
			writers := map[string]bool{}
			for _, g := range p.Funcs(false, "contractcourt") {
				for _, w := range g.Assigns(an.Field(cc+"ChannelArbitrator", "state", nil), true) {
					writers[g.Root().ID] = true
					o.Site("writer %s", w.String())
				}
			}
			for w := range writers {
				if w != arb+"advanceState" && w != arb+"Start" {
					o.FailAt(w+"#writes-state", "", "%s writes ChannelArbitrator.state; only advanceState (after CommitState) and Start may", w)
				}
			}
		})

	r.Obl("stage-graph", "TABLE",
		"stateStep, per current stage: the set of next stages (assigned to nextState or returned, including the results of checkLegacyBreach) never ranks below the current stage, and equals the reference edge set; StateError only accompanies an error",
		"a backward edge re-runs a stage whose effects were already made durable; a missing forward edge leaves a restarted arbitrator stuck before the stage it must resume", 6,
		func(o *an.Obl) {
			f := p.Func(arb + "stateStep")
			breach := map[string]bool{}
			lb := p.Func(arb + "checkLegacyBreach")
			for _, s := range lb.Returns() {
				if id, ok := s.Node.(*ast.ReturnStmt).Results[0].(*ast.Ident); ok {
					breach[id.Name] = true
				}
			}
			var sw *ast.SwitchStmt
			ast.Inspect(f.Body, func(n ast.Node) bool {
				if s, ok := n.(*ast.SwitchStmt); ok && sw == nil && s.Tag != nil && f.Canon(s.Tag) == "$recv.state" {
					sw = s
					return false
				}
				return true
			})
			if sw == nil {
				o.FailAt(f.ID+"#switch", f.Where(f.Body.Pos()), "cannot find the switch over c.state")
				return
			}
			want := map[string][]string{
				"StateDefault":               {"StateBroadcastCommit", "StateContractClosed", "StateDefault", "StateFullyResolved"},
				"StateBroadcastCommit":       {"StateBroadcastCommit", "StateCommitmentBroadcasted", "StateContractClosed", "StateFullyResolved"},
				"StateCommitmentBroadcasted": {"StateCommitmentBroadcasted", "StateContractClosed", "StateFullyResolved"},
				"StateContractClosed":        {"StateFullyResolved", "StateWaitingFullResolution"},
				"StateWaitingFullResolution": {"StateFullyResolved", "StateWaitingFullResolution"},
				"StateFullyResolved":         {"StateFullyResolved"},
			}
			info := f.Info()
			isState := func(e ast.Expr) (string, bool) {
				id, ok := ast.Unparen(e).(*ast.Ident)
				if !ok {
					return "", false
				}
				c, ok := info.Uses[id].(*types.Const)
				if !ok || an.TypeID(c.Type()) != cc+"ArbitratorState" {
					return "", false
				}
				return id.Name, true
			}
			seenCases := map[string]bool{}
			for _, st := range sw.Body.List {
				cl := st.(*ast.CaseClause)
				if len(cl.List) != 1 {
					continue
				}
				cur, ok := isState(cl.List[0])
				if !ok {
					continue
				}
				seenCases[cur] = true
				next := map[string]bool{}
				add := func(e ast.Expr, where ast.Node) {
					if k, ok := isState(e); ok {
						next[k] = true
						return
					}
					if id, ok := ast.Unparen(e).(*ast.Ident); ok {
						if call, _ := f.UniqueCallDef(id); call != nil && an.CalleeID(info, call) == arb+"checkLegacyBreach" {
							for k := range breach {
								next[k] = true
							}
							return
						}
					}
					o.FailAt(f.ID+"#next-"+cur, f.Where(where.Pos()), "cannot determine the next stage %s in case %s", an.Text(e), cur)
				}
				for _, b := range cl.Body {
					ast.Inspect(b, func(n ast.Node) bool {
						switch x := n.(type) {
						case *ast.FuncLit:
							return false
						case *ast.AssignStmt:
							for i, l := range x.Lhs {
								if id, ok := l.(*ast.Ident); ok && id.Name == "nextState" && len(x.Rhs) == len(x.Lhs) {
									add(x.Rhs[i], x)
								}
							}
						case *ast.ReturnStmt:
							if len(x.Results) == 3 {
								add(x.Results[0], x)
								if k, _ := isState(x.Results[0]); k == "StateError" && an.IsNilIdent(info, x.Results[2]) {
									o.FailAt(f.ID+"#error-without-err-"+cur, f.Where(x.Pos()), "StateError is returned with a nil error in case %s: advanceState would commit it", cur)
								}
							}
						}
						return true
					})
				}
				var got []string
				for k := range next {
					if k == "StateError" {
						continue
					}
					got = append(got, k)
					if arbStateRank[k] < arbStateRank[cur] {
						o.FailAt(f.ID+"#backward-"+cur+"-"+k, f.Where(cl.Pos()), "stage %s can move back to %s", cur, k)
					}
				}
				sort.Strings(got)
				o.Site("stage %s -> %v", cur, got)
				if strings.Join(got, ",") != strings.Join(want[cur], ",") {
					o.FailAt(f.ID+"#edges-"+cur, f.Where(cl.Pos()), "stage %s has next stages %v, the reference stage graph has %v", cur, got, want[cur])
				}
			}
			for k := range want {
				if !seenCases[k] {
					o.FailAt(f.ID+"#case-"+k, f.Where(sw.Pos()), "stateStep has no case for stage %s", k)
				}
			}
		})

	r.Obl("restart-retriggers-closed-channel", "REG",
		"progressStateMachineAfterRestart, for a channel already marked closed: the stages it re-triggers are exactly the stages whose step in stateStep reads the trigger (Default, BroadcastCommit, CommitmentBroadcasted, and ContractClosed, which hands it to the chain-action evaluation); each close type maps to its own trigger; the trigger height is the recorded closing height",
		"after the close is recorded no chain watcher exists any more; a pre-closed stage left with the chain trigger never receives a close event again and nothing is ever resolved", 8,
		func(o *an.Obl) {
			f := p.Func(arb + "progressStateMachineAfterRestart")
			st := p.Func(arb + "stateStep")
			// stages of stateStep whose step depends on the trigger: the case
			// body reads the trigger parameter (switching on it or handing it
			// to the chain action evaluation, which leaves out not-yet-due
			// HTLCs for a mere chain trigger)
			accept := map[string]bool{}
			var trigObj types.Object
			if ps := st.Params(false); len(ps) > 1 {
				trigObj = ps[1]
			}
			for _, es := range p.EnumSwitches("contractcourt", "ArbitratorState", "contractcourt") {
				if es.Fn.ID != st.ID {
					continue
				}
				for i, cl := range es.Stmt.Body.List {
					names := es.Clauses[i]
					uses := false
					ast.Inspect(cl, func(n ast.Node) bool {
						if id, ok := n.(*ast.Ident); ok && trigObj != nil && st.Info().Uses[id] == trigObj {
							uses = true
						}
						return true
					})
					if uses {
						for _, n := range names {
							accept[n] = true
						}
					}
				}
			}
			listed := map[string]bool{}
			var restartSw *ast.SwitchStmt
			for _, es := range p.EnumSwitches("contractcourt", "ArbitratorState", "contractcourt") {
				if es.Fn.ID == f.ID {
					restartSw = es.Stmt
					for k := range es.Named() {
						listed[k] = true
					}
				}
			}
			if restartSw == nil {
				o.FailAt(f.ID+"#switch", f.Where(f.Body.Pos()), "cannot find the stalled-stage switch")
				return
			}
			o.Site("stateStep reads the trigger in %v; restart re-triggers %v", keys(accept), keys(listed))
			for k := range accept {
				if !listed[k] {
					o.FailAt(f.ID+"#stage-not-retriggered-"+k, f.Where(restartSw.Pos()), "the step of stage %s depends on the trigger in stateStep but the stage is not re-triggered with the close trigger after a restart of a closed channel", k)
				}
			}
			for k := range listed {
				if !accept[k] {
					o.FailAt(f.ID+"#stage-retriggered-"+k, f.Where(restartSw.Pos()), "stage %s is re-triggered after restart but its step in stateStep does not read the trigger", k)
				}
			}
			// fallthrough chain: every listed case must reach the inner switch
			for _, s := range restartSw.Body.List {
				cl := s.(*ast.CaseClause)
				if len(cl.Body) == 0 {
					o.FailAt(f.ID+"#empty-case", f.Where(cl.Pos()), "a stalled-stage case has an empty body (missing fallthrough)")
				}
			}
			want := map[string]string{"CooperativeClose": "coopCloseTrigger", "BreachClose": "breachCloseTrigger", "LocalForceClose": "localCloseTrigger", "RemoteForceClose": "remoteCloseTrigger"}
			n := 0
			for _, s := range f.Assigns(an.LocalNamed("trigger"), false) {
				as := s.Node.(*ast.AssignStmt)
				rhs := an.Text(as.Rhs[0])
				if as.Tok.String() == ":=" {
					continue
				}
				for ct, trig := range want {
					if ok, _ := f.Guarded(s, an.Cmp(an.Any(), an.EQ, an.PkgVar("channeldb", ct), "")); ok {
						n++
						o.Site("close type %s -> %s", ct, rhs)
						if rhs != trig {
							o.FailAt(f.ID+"#trigger-"+ct, s.Where(), "close type %s re-triggers with %s, expected %s", ct, rhs, trig)
						}
						delete(want, ct)
					}
				}
				guarded(o, f, s, an.Truth(an.FieldPath(an.FieldPath(an.Recv(), "cfg"), "IsPendingClose"), true, "c.cfg.IsPendingClose"))
			}
			for ct := range want {
				o.FailAt(f.ID+"#close-type-"+ct, f.Where(restartSw.Pos()), "close type %s has no trigger after restart", ct)
			}
			nTH := 0
			for _, s := range f.Assigns(an.LocalNamed("triggerHeight"), false) {
				as := s.Node.(*ast.AssignStmt)
				if as.Tok.String() == ":=" {
					continue
				}
				nTH++
				guarded(o, f, s, an.Truth(an.FieldPath(an.FieldPath(an.Recv(), "cfg"), "IsPendingClose"), true, "c.cfg.IsPendingClose"))
				o.Site("%s", s.String())
				if c := f.Canon(as.Rhs[0]); c != "$recv.cfg.ClosingHeight" {
					o.FailAt(f.ID+"#trigger-height", s.Where(), "the trigger height of a closed channel is %s, expected the recorded closing height", c)
				}
			}
			if nTH != 1 {
				o.FailAt(f.ID+"#trigger-height-missing", f.Where(f.Body.Pos()), "a closed channel must be re-triggered at its recorded closing height: found %d assignments of triggerHeight below IsPendingClose, expected one", nTH)
			}
			// every pending-close path sets it: the advanceState call is
			// unreachable below IsPendingClose without that assignment
			// the relaunched resolvers are re-supplemented from the set of
			// the commitment that confirmed
			rr := p.Func(arb + "relaunchResolvers")
			nConf := 0
			for _, s := range rr.Assigns(an.LocalNamed("confirmedHTLCs"), false) {
				as := s.Node.(*ast.AssignStmt)
				ix, ok := as.Rhs[0].(*ast.IndexExpr)
				if !ok {
					continue
				}
				nConf++
				c := rr.Canon(ix.Index)
				o.Site("relaunchResolvers: confirmed HTLCs = %s[%s]", rr.Canon(ix.X), c)
				if rr.Canon(ix.X) != "$p0.HtlcSets" || !strings.HasPrefix(c, "$p0.ConfCommitKey.UnwrapOrErr(") {
					o.FailAt(rr.ID+"#confirmed-set", s.Where(), "the resolvers are re-supplemented from %s[%s], expected the HTLC set stored under the confirmed commitment's own key", rr.Canon(ix.X), c)
				}
			}
			if nConf != 1 {
				o.FailAt(rr.ID+"#confirmed-set-sites", rr.Where(rr.Body.Pos()), "expected one lookup of the confirmed HTLC set in relaunchResolvers, found %d", nConf)
			}
			// the relaunch condition
			rl := f.Calls(an.CalleeIs(arb+"relaunchResolvers"), false)
			if need(o, f, "relaunchResolvers", rl, 1) {
				guarded(o, f, rl[0], an.Cmp(an.LocalNamed("startingState"), an.EQ, an.PkgVar("contractcourt", "StateWaitingFullResolution"), "startingState == StateWaitingFullResolution"))
				guarded(o, f, rl[0], an.Cmp(an.LocalNamed("nextState"), an.EQ, an.PkgVar("contractcourt", "StateWaitingFullResolution"), "nextState == StateWaitingFullResolution"))
			}
		})

	r.Obl("durable-before-effect", "PATH",
		"stateStep stores the new resolvers (InsertUnresolvedContracts ok) before launching them and records the close transaction (MarkCommitmentBroadcasted ok) before publishing it; each close handler logs the contract resolutions and the confirmed commit set, then marks the channel closed, then advances the stage, each step on the success edge of the previous one",
		"a stage advanced (or a channel marked closed) before its inputs are on disk cannot be resumed: the restarted arbitrator has no resolutions or commit set to act on", 12,
		func(o *an.Obl) {
			f := p.Func(arb + "stateStep")
			ins := f.Calls(an.CalleeNamed("InsertUnresolvedContracts"), false)
			launch := f.Calls(an.CalleeIs(arb+"resolveContracts"), false)
			if need(o, f, "InsertUnresolvedContracts", ins, 1) && need(o, f, "resolveContracts", launch, 1) {
				mustPass(o, f, "InsertUnresolvedContracts", ins, an.OkErrNil, launch)
				for _, l := range launch {
					if a, b := f.ArgCanon(l)[0], f.ArgCanon(ins[0]); len(b) < 2 || a != b[1] {
						o.FailAt(f.ID+"#launched-set", l.Where(), "the resolvers launched (%s) are not the ones stored (%v)", a, b)
					}
				}
				ws := f.Assigns(an.LocalNamed("nextState"), false)
				for _, w := range ws {
					if an.Text(w.Node.(*ast.AssignStmt).Rhs[0]) == "StateWaitingFullResolution" {
						if ok, _ := f.Guarded(w, an.Cmp(an.Any(), an.EQ, an.PkgVar("contractcourt", "StateContractClosed"), "")); ok {
							mustPass(o, f, "InsertUnresolvedContracts", ins, an.OkErrNil, []an.Site{w})
						}
					}
				}
			}
			mark := f.Calls(an.CalleeNamed("MarkCommitmentBroadcasted"), false)
			pub := f.Calls(an.CalleeNamed("PublishTx"), false)
			if need(o, f, "MarkCommitmentBroadcasted", mark, 1) && need(o, f, "PublishTx", pub, 1) {
				mustPass(o, f, "MarkCommitmentBroadcasted", mark, an.OkErrNil, pub)
				if a, b := f.ArgCanon(mark[0])[0], f.ArgCanon(pub[0])[0]; a != b {
					o.FailAt(f.ID+"#published-tx", pub[0].Where(), "the transaction published (%s) is not the one recorded (%s)", b, a)
				}
			}
			for _, h := range []struct {
				fn      string
				logs    bool
				trigger string
			}{
				{"handleCoopCloseEvent", false, "coopCloseTrigger"},
				{"handleLocalForceCloseEvent", true, "localCloseTrigger"},
				{"handleRemoteForceCloseEvent", true, "remoteCloseTrigger"},
				{"handleContractBreach", true, "breachCloseTrigger"},
			} {
				g := p.Func(arb + h.fn)
				closed := g.Calls(an.CalleeNamed("MarkChannelClosed"), false)
				adv := g.Calls(an.CalleeIs(arb+"advanceState"), false)
				if !need(o, g, "MarkChannelClosed", closed, 1) || !need(o, g, "advanceState", adv, 1) {
					continue
				}
				mustPass(o, g, "MarkChannelClosed", closed, an.OkErrNil, adv)
				if t := g.ArgCanon(adv[0])[1]; t != cc+h.trigger {
					o.FailAt(g.ID+"#trigger", adv[0].Where(), "%s advances with %s, expected %s", h.fn, t, h.trigger)
				}
				if h.logs {
					lr := g.Calls(an.CalleeNamed("LogContractResolutions"), false)
					cs := g.Calls(an.CalleeNamed("InsertConfirmedCommitSet"), false)
					if need(o, g, "LogContractResolutions", lr, 1) && need(o, g, "InsertConfirmedCommitSet", cs, 1) {
						mustPass(o, g, "LogContractResolutions", lr, an.OkErrNil, closed)
						mustPass(o, g, "InsertConfirmedCommitSet", cs, an.OkErrNil, closed)
						// the commit set stored is the one the stage is advanced with
						if a, b := g.ArgCanon(cs[0])[0], g.ArgCanon(adv[0])[2]; a != b {
							o.FailAt(g.ID+"#commit-set", adv[0].Where(), "%s advances with commit set %s but stored %s", h.fn, b, a)
						}
					}
				}
			}
		})

	r.Obl("resolved-only-when-nothing-unresolved", "GUARD",
		"stateStep reaches StateFullyResolved from StateWaitingFullResolution only below len(unresolved) == 0 of a successful FetchUnresolvedContracts, and from StateContractClosed only below empty resolutions and empty commit set; NotifyChannelResolved is called only in the StateFullyResolved case",
		"a channel declared resolved with contracts outstanding stops its resolvers for good: funds stay unswept and upstream HTLCs unresolved", 4,
		func(o *an.Obl) {
			f := p.Func(arb + "stateStep")
			for _, w := range f.Assigns(an.LocalNamed("nextState"), false) {
				if an.Text(w.Node.(*ast.AssignStmt).Rhs[0]) != "StateFullyResolved" {
					continue
				}
				inCase := func(k string) bool {
					ok, _ := f.Guarded(w, an.Cmp(an.FieldPath(an.Recv(), "state"), an.EQ, an.PkgVar("contractcourt", k), ""))
					return ok
				}
				switch {
				case inCase("StateWaitingFullResolution"):
					guarded(o, f, w, an.Cmp(an.Len(an.LocalNamed("unresolved")), an.EQ, an.IntConst(0), "len(unresolved) == 0"))
					mustPass(o, f, "FetchUnresolvedContracts", f.Calls(an.CalleeNamed("FetchUnresolvedContracts"), false), an.OkErrNil, []an.Site{w})
				case inCase("StateContractClosed"):
					guarded(o, f, w, an.Truth(an.CallNamed("IsEmpty", an.LocalNamed("contractResolutions")), true, "contractResolutions.IsEmpty()"))
					guarded(o, f, w, an.Truth(an.CallNamed("IsEmpty", an.Param(2)), true, "confCommitSet.IsEmpty()"))
				}
			}
			ns := f.Calls(an.CalleeNamed("NotifyChannelResolved"), false)
			if need(o, f, "NotifyChannelResolved", ns, 1) {
				for _, s := range ns {
					guarded(o, f, s, an.Cmp(an.FieldPath(an.Recv(), "state"), an.EQ, an.PkgVar("contractcourt", "StateFullyResolved"), "c.state == StateFullyResolved"))
				}
			}
			for _, g := range p.Funcs(false, "contractcourt") {
				if g.Root().ID == f.ID || !strings.HasPrefix(g.Root().ID, arb) {
					continue
				}
				for _, s := range g.Calls(an.CalleeNamed("NotifyChannelResolved"), false) {
					o.FailAt(g.ID+"#notify", s.Where(), "NotifyChannelResolved is called outside the StateFullyResolved stage")
				}
			}
		})

	r.Obl("resolver-registry", "REG",
		"every ContractResolver implementation whose ResolverKey can be non-nil has a case in writeResolver's type switch with its own tag, and FetchUnresolvedContracts maps each tag to the constructor returning that same type; tags are distinct",
		"a resolver stored under the wrong or zero tag is reloaded as another resolver (or rejected) after a restart and its contract is lost", 12,
		func(o *an.Obl) {
			w := p.Func(cc + "boltArbitratorLog.writeResolver")
			rd := p.Func(cc + "boltArbitratorLog.FetchUnresolvedContracts")
			tagOf := map[string]string{} // type -> tag
			_, clauses := w.TypeSwitchCases()
			for _, cl := range clauses {
				for _, te := range cl.List {
					t := an.TypeID(w.Info().TypeOf(te))
					for _, st := range cl.Body {
						if as, ok := st.(*ast.AssignStmt); ok && len(as.Rhs) == 1 {
							tagOf[t] = an.Text(as.Rhs[0])
						}
					}
				}
			}
			seenTag := map[string]string{}
			for t, tag := range tagOf {
				o.Site("write: %s -> %s", t, tag)
				if other, dup := seenTag[tag]; dup {
					o.FailAt(w.ID+"#dup-tag-"+tag, w.Where(w.Body.Pos()), "resolver types %s and %s share the tag %s", other, t, tag)
				}
				seenTag[tag] = t
			}
			// reader: case tag -> the resolver type produced under that case.
			// The case is identified by its tag, the constructor by what it
			// returns (a concrete ContractResolver implementation), wherever the
			// dispatch sits after normalisation: in the ForEach closure
			// (`res, err = newX(...)`) or in a helper the loader inlined as an
			// immediately invoked literal (`return newX(...)`).
			resolverIface := p.LookupType("contractcourt", "ContractResolver").Underlying().(*types.Interface)
			readOf := map[string]string{}
			ast.Inspect(rd.Root().Body, func(n ast.Node) bool {
				cl, ok := n.(*ast.CaseClause)
				if !ok || len(cl.List) != 1 {
					return true
				}
				if tv := rd.Info().TypeOf(cl.List[0]); tv == nil || an.TypeID(tv) != cc+"resolverType" {
					return true
				}
				tag := an.Text(cl.List[0])
				var made []string
				for _, st := range cl.Body {
					ast.Inspect(st, func(m ast.Node) bool {
						if _, nested := m.(*ast.CaseClause); nested {
							return false
						}
						call, ok := m.(*ast.CallExpr)
						if !ok {
							return true
						}
						sig, ok := rd.Info().TypeOf(call.Fun).(*types.Signature)
						if !ok || sig.Results().Len() == 0 {
							return true
						}
						rt := sig.Results().At(0).Type()
						if _, isI := rt.Underlying().(*types.Interface); isI || !types.Implements(rt, resolverIface) {
							return true
						}
						id := an.TypeID(rt)
						for _, have := range made {
							if have == id {
								return true
							}
						}
						made = append(made, id)
						return true
					})
				}
				switch len(made) {
				case 0:
				case 1:
					if prev, dup := readOf[tag]; dup && prev != made[0] {
						readOf[tag] = prev + " and " + made[0]
					} else {
						readOf[tag] = made[0]
					}
				default:
					readOf[tag] = strings.Join(made, " and ")
				}
				return true
			})
			for t, tag := range tagOf {
				o.Site("read: %s -> %s", tag, readOf[tag])
				if readOf[tag] != t {
					o.FailAt(rd.ID+"#tag-"+tag, rd.Where(rd.Body.Pos()), "tag %s is written for %s but read back as %q", tag, t, readOf[tag])
				}
			}
			for tag := range readOf {
				if _, ok := seenTag[tag]; !ok {
					o.FailAt(rd.ID+"#unwritten-tag-"+tag, rd.Where(rd.Body.Pos()), "tag %s is read but never written", tag)
				}
			}
			// every implementation with a non-nil key is registered
			iface := p.LookupType("contractcourt", "ContractResolver").Underlying().(*types.Interface)
			pkg := p.Pkg("contractcourt")
			for _, name := range pkg.Types.Scope().Names() {
				tn, ok := pkg.Types.Scope().Lookup(name).(*types.TypeName)
				if !ok || tn.IsAlias() {
					continue
				}
				pt := types.NewPointer(tn.Type())
				if _, isI := tn.Type().Underlying().(*types.Interface); isI || !types.Implements(pt, iface) {
					continue
				}
				if strings.HasPrefix(name, "mock") || strings.HasPrefix(name, "test") {
					continue
				}
				kf := p.FuncOpt(cc + name + ".ResolverKey")
				stateless := false
				if kf != nil {
					stateless = true
					for _, s := range kf.Returns() {
						if !an.IsNilIdent(kf.Info(), s.Node.(*ast.ReturnStmt).Results[0]) {
							stateless = false
						}
					}
				}
				_, reg := tagOf[cc+name]
				o.Site("implementation %s stateless=%v registered=%v", name, stateless, reg)
				if !stateless && !reg {
					o.FailAt(w.ID+"#unregistered-"+name, w.Where(w.Body.Pos()), "resolver %s has a storage key but no tag in writeResolver: it would be stored under the zero tag", name)
				}
			}
		})

	r.Obl("resolver-codecs", "CODEC",
		"each stored resolver's Encode and new…FromReader move the same fields in the same order with the same wire types; the resolved flag is written from IsResolved() and restored through markResolved() below the flag that was read; the arbitrator's contract resolutions, commit set and taproot aux data encoders agree with their decoders",
		"a progress field not written, or read at another position, makes the reloaded resolver restart from the beginning or misread its resolution", 30,
		func(o *an.Obl) {
			for _, c := range []struct{ typ, dec string }{
				{"htlcTimeoutResolver", "newTimeoutResolverFromReader"},
				{"htlcSuccessResolver", "newSuccessResolverFromReader"},
				{"htlcOutgoingContestResolver", "newOutgoingContestResolverFromReader"},
				{"htlcIncomingContestResolver", "newIncomingContestResolverFromReader"},
				{"commitSweepResolver", "newCommitSweepResolverFromReader"},
				{"breachResolver", "newBreachResolverFromReader"},
			} {
				enc, dec := p.Func(cc+c.typ+".Encode"), p.Func(cc+c.dec)
				contest := strings.Contains(c.typ, "Contest")
				if c.typ != "breachResolver" && !contest {
					p.CheckPair(o, an.CodecPair{Name: c.typ, TypePkg: "contractcourt", TypeName: c.typ,
						Enc: []string{enc.ID}, Dec: []string{dec.ID}, CompareTypes: true, MinEvents: 3})
				}
				if contest {
					// the contest resolvers embed the timeout/success resolver's encoding
					inner := map[string]string{"htlcOutgoingContestResolver": "htlcTimeoutResolver.Encode", "htlcIncomingContestResolver": "htlcSuccessResolver.Encode"}[c.typ]
					innerDec := map[string]string{"htlcOutgoingContestResolver": "newTimeoutResolverFromReader", "htlcIncomingContestResolver": "newSuccessResolverFromReader"}[c.typ]
					if len(enc.Calls(an.CalleeIs(cc+inner), false)) != 1 {
						o.FailAt(enc.ID+"#inner", enc.Where(enc.Body.Pos()), "%s.Encode does not delegate to %s", c.typ, inner)
					}
					if len(dec.Calls(an.CalleeIs(cc+innerDec), false)) != 1 {
						o.FailAt(dec.ID+"#inner", dec.Where(dec.Body.Pos()), "%s does not delegate to %s", c.dec, innerDec)
					}
					o.Site("%s delegates to %s / %s", c.typ, inner, innerDec)
					if c.typ == "htlcIncomingContestResolver" {
						// the one own field goes first on both sides
						var we, rd []an.Site
						for _, s := range enc.Calls(an.CalleeIs("encoding/binary.Write"), false) {
							if an.Text(callArg(s, 2)) == "h.htlcExpiry" {
								we = append(we, s)
							}
						}
						for _, s := range dec.Calls(an.CalleeIs("encoding/binary.Read"), false) {
							if an.Text(callArg(s, 2)) == "&h.htlcExpiry" {
								rd = append(rd, s)
							}
						}
						if need(o, enc, "write of htlcExpiry", we, 1) && need(o, dec, "read of htlcExpiry", rd, 1) {
							before(o, enc, "htlcExpiry", we, "inner Encode", enc.Calls(an.CalleeIs(cc+inner), false))
							before(o, dec, "htlcExpiry", rd, "inner decode", dec.Calls(an.CalleeIs(cc+innerDec), false))
						}
					}
					continue
				}
				// resolved flag
				nEnc := 0
				for _, s := range enc.Calls(an.CalleeIs("encoding/binary.Write"), false) {
					if a := enc.ArgCanon(s); strings.HasSuffix(a[2], ".IsResolved()") {
						nEnc++
					}
				}
				mr := dec.Calls(an.CalleeNamed("markResolved"), false)
				o.Site("%s: resolved flag written %d time(s), restored at %d site(s)", c.typ, nEnc, len(mr))
				if nEnc != 1 || len(mr) != 1 {
					o.FailAt(enc.ID+"#resolved-flag", enc.Where(enc.Body.Pos()), "%s writes the resolved flag %d times and restores it at %d sites", c.typ, nEnc, len(mr))
					continue
				}
				guarded(o, dec, mr[0], an.Truth(an.LocalNamed("resolved"), true, "resolved flag read from the stream"))
				// `resolved` is filled by a binary.Read before
				var rd []an.Site
				for _, s := range dec.Calls(an.CalleeIs("encoding/binary.Read"), false) {
					if an.Text(callArg(s, 2)) == "&resolved" {
						rd = append(rd, s)
					}
				}
				mustPass(o, dec, "binary.Read(&resolved)", rd, an.OkErrNil, mr)
			}
			lg := cc + "boltArbitratorLog."
			p.CheckPair(o, an.CodecPair{Name: "ContractResolutions", TypePkg: "contractcourt", TypeName: "ContractResolutions",
				Enc: []string{lg + "LogContractResolutions"}, Dec: []string{lg + "FetchContractResolutions"}, MentionsOnly: true})
			p.CheckPair(o, an.CodecPair{Name: "CommitSet", TypePkg: "contractcourt", TypeName: "CommitSet",
				Enc: []string{cc + "encodeCommitSet"}, Dec: []string{cc + "decodeCommitSet"}, MentionsOnly: true})
			for _, pr := range [][3]string{
				{"lnwallet", "IncomingHtlcResolution", "IncomingResolution"},
				{"lnwallet", "OutgoingHtlcResolution", "OutgoingResolution"},
				{"lnwallet", "CommitOutputResolution", "CommitResolution"},
				{"lnwallet", "AnchorResolution", "AnchorResolution"},
				{"contractcourt", "BreachResolution", "BreachResolution"},
				{"input", "SignDetails", "SignDetails"},
			} {
				p.CheckPair(o, an.CodecPair{Name: pr[1], TypePkg: pr[0], TypeName: pr[1],
					Enc: []string{cc + "encode" + pr[2]}, Dec: []string{cc + "decode" + pr[2]}, CompareTypes: true, NamedOnly: true, MinEvents: 1})
			}
		})

	r.Obl("progress-checkpointed", "PATH",
		"in the resolvers' Resolve paths every `outputIncubating = true` and every markResolved() is followed, on every path that returns success, by a Checkpoint call (or, for the success resolver's foreign-spend path, comes after a successful Checkpoint of the terminal report); a failed checkpoint after setting outputIncubating aborts the step; the tabled exceptions are the stateless anchor resolver and the incoming contest resolver's undecodable-payload exit, which is recomputed from the same stored bytes",
		"progress set in memory but not checkpointed is redone after a restart: a second-level transaction handed off twice, an upstream HTLC resolved twice", 14,
		func(o *an.Obl) {
			exempt := map[string]string{
				cc + "anchorResolver.Resolve":              "stateless resolver: no storage key, re-created on every start",
				cc + "htlcIncomingContestResolver.Resolve": "first markResolved: payload cannot be decoded; the same stored onion fails to decode after a restart and the exit is re-taken (one site only)",
			}
			used := map[string]int{}
			n := 0
			for _, f := range p.Funcs(false, "contractcourt") {
				if f.Lit != nil || f.Recv() == nil {
					continue
				}
				rt := an.TypeID(f.Recv().Type())
				if !strings.HasSuffix(rt, "Resolver") || strings.Contains(f.ID, "FromReader") {
					continue
				}
				cps := f.Calls(an.CalleeNamed("Checkpoint"), false)
				var sites []an.Site
				sites = append(sites, f.Calls(an.CalleeNamed("markResolved"), false)...)
				for _, s := range f.Assigns(an.FieldPath(nil, "outputIncubating"), false) {
					if an.Text(s.Node.(*ast.AssignStmt).Rhs[0]) == "true" {
						sites = append(sites, s)
					}
				}
				for _, s := range sites {
					n++
					ok := false
					for _, c := range cps {
						if f.PostDominatedOrFails(s, c) {
							ok = true
						}
					}
					after := false
					if !ok && len(cps) > 0 {
						// preceded by a successful checkpoint
						if len(f.RequirePass(cps, an.OkErrNil, []an.Site{s})) == 0 {
							after = true
						}
					}
					o.Site("%s checkpoint-follows=%v checkpoint-precedes=%v", s.String(), ok, after)
					if ok {
						// a failed checkpoint must abort the step: no successful
						// exit after this site without the checkpoint's success
						reachS := f.Graph().Reach(s.V, nil, nil)
						var succ []an.Site
						for _, rsite := range f.Returns() {
							if reachS[rsite.V] && f.ClassifyReturn(rsite) != an.RetFailure {
								succ = append(succ, rsite)
							}
						}
						var following []an.Site
						for _, c := range cps {
							if reachS[c.V] {
								following = append(following, c)
							}
						}
						es, direct := f.UnionOk(following, an.OkErrNil)
						r2 := f.Graph().Reach(s.V, es, nil)
						for _, rsite := range succ {
							if direct[rsite.V] {
								continue
							}
							if r2[rsite.V] {
								o.FailAt(f.ID+"#checkpoint-failure-ignored", rsite.Where(), "after %s the step can return success although the Checkpoint failed", an.Text(s.Node))
							}
						}
					}
					if ok || after {
						continue
					}
					if why, ex := exempt[f.ID]; ex {
						used[f.ID]++
						o.Site("exempt: %s (%s)", s.String(), why)
						continue
					}
					o.FailAt(f.ID+"#unchekpointed-progress", s.Where(), "%s in %s is not followed by a Checkpoint on every successful path", an.Text(s.Node), f.ID)
				}
			}
			for id, k := range used {
				if k > 1 {
					o.FailAt(id+"#exemptions", "", "%s has %d un-checkpointed progress sites, the table allows one", id, k)
				}
			}
			if n < 14 {
				o.FailAt("progress#sites", "", "expected at least 14 progress sites, found %d", n)
			}
		})

	r.Obl("checkpoint-rewrites-resolver", "PATH",
		"both functions installed as a resolver's Checkpoint (boltArbitratorLog.checkpointContract for reloaded resolvers, InsertUnresolvedContracts for live ones) reach writeResolver for every resolver passed on every successful path, and writeResolver reaches the bucket Put for every resolver with a key",
		"a checkpoint that skips the write leaves the resolver's initial state on disk: after a restart every completed stage is executed again", 5,
		func(o *an.Obl) {
			// who is installed as Checkpoint
			T := p.LookupType("contractcourt", "ResolverConfig")
			installed := map[string]bool{}
			for _, ref := range p.CompositeLitsOf(T) {
				if ref.Fn == nil {
					continue
				}
				cl := ref.Node.(*ast.CompositeLit)
				for _, el := range cl.Elts {
					kv, ok := el.(*ast.KeyValueExpr)
					if !ok || an.Text(kv.Key) != "Checkpoint" {
						continue
					}
					switch v := kv.Value.(type) {
					case *ast.SelectorExpr:
						if fn, ok := ref.Fn.Info().Uses[v.Sel].(*types.Func); ok {
							installed[an.FuncID(fn)] = true
						}
					case *ast.FuncLit:
						lf := ref.Fn.LitFunc(v)
						cs := lf.AllCalls(false)
						if len(cs) != 1 {
							o.FailAt(ref.Fn.ID+"#checkpoint-literal", ref.Fn.Where(v.Pos()), "the Checkpoint closure is not a single delegation")
							continue
						}
						a := lf.ArgCanon(cs[0])
						id := an.CalleeID(lf.Info(), cs[0].Node.(*ast.CallExpr))
						o.Site("Checkpoint closure in %s delegates to %s%v", ref.Fn.ID, id, a)
						if !strings.HasSuffix(id, "ArbitratorLog.InsertUnresolvedContracts") || len(a) != 2 || !strings.HasSuffix(a[0], "p1") || !strings.HasSuffix(a[1], "p0") {
							o.FailAt(ref.Fn.ID+"#checkpoint-delegation", cs[0].Where(), "the live Checkpoint closure calls %s%v, expected InsertUnresolvedContracts(reports, res)", id, a)
						}
						installed[cc+"boltArbitratorLog.InsertUnresolvedContracts"] = true
					default:
						o.FailAt(ref.Fn.ID+"#checkpoint-value", ref.Fn.Where(kv.Pos()), "cannot resolve the Checkpoint value %s", an.Text(kv.Value))
					}
				}
			}
			o.Site("installed as Checkpoint: %v", keys(installed))
			if len(installed) < 2 {
				o.FailAt("ResolverConfig.Checkpoint#installers", "", "expected two Checkpoint routes, found %v", keys(installed))
			}
			wr := cc + "boltArbitratorLog.writeResolver"
			for id := range installed {
				f := p.Func(id)
				lf := theLit(f, kvUpdate, "transaction closure of "+id)
				if lf == nil {
					o.FailAt(id+"#closure", f.Where(f.Body.Pos()), "cannot find the transaction closure of %s", id)
					continue
				}
				ws := lf.Calls(an.CalleeIs(wr), false)
				if !need(o, lf, "writeResolver", ws, 1) {
					continue
				}
				if strings.HasSuffix(id, "InsertUnresolvedContracts") {
					everyIteration(o, lf, `^\$p1$|resolvers$`, ws, "writeResolver")
					if a := lf.ArgCanon(ws[0]); !strings.HasPrefix(a[1], "$elem(") {
						o.FailAt(id+"#written", ws[0].Where(), "writeResolver stores %s, not the loop element", a[1])
					}
				} else {
					mustPass(o, lf, "writeResolver", ws, an.OkErrNil, lf.StrictSuccessReturns())
				}
			}
			w := p.Func(wr)
			puts := w.Calls(an.CalleeNamed("Put"), false)
			if need(o, w, "contractBucket.Put", puts, 1) {
				for _, s := range w.StrictSuccessReturns() {
					if ok, _ := w.Guarded(s, an.IsNil(an.LocalNamed("resKey"), true, "")); ok {
						o.Site("%s: stateless resolver exit", s.String())
						continue
					}
					o.FailAt(w.ID+"#success-without-put", s.Where(), "writeResolver returns success without storing the resolver")
				}
				if a := w.ArgCanon(puts[0]); a[0] != "$p1.ResolverKey()" && a[0] != "resKey" {
					o.Site("put key %s", a[0])
				}
			}
		})

	r.Obl("successor-swapped-before-run", "PATH",
		"resolveContract: a successor returned by Resolve is written with SwapContract(current, next) before it becomes the current contract and is launched; ResolveContract (deletion) is called only below IsResolved(); SwapContract deletes the old key and writes the new resolver in one transaction",
		"a successor that runs without being stored is forgotten by a restart, together with the HTLC it was resolving; a contract deleted before it is resolved is never finished", 3,
		func(o *an.Obl) {
			f := p.Func(arb + "resolveContract")
			swap := f.Calls(an.CalleeNamed("SwapContract"), false)
			reassign := f.Assigns(an.Param(0), false)
			launch := f.Calls(an.CalleeNamed("Launch"), false)
			if need(o, f, "SwapContract", swap, 1) && need(o, f, "currentContract = nextContract", reassign, 1) {
				before(o, f, "SwapContract", swap, "currentContract = nextContract", reassign)
				before(o, f, "SwapContract", swap, "Launch", launch)
				if a := f.ArgCanon(swap[0]); a[0] != "$p0" || !strings.Contains(a[1], "Resolve()") {
					o.FailAt(f.ID+"#swap-args", swap[0].Where(), "SwapContract(%s, %s): expected (current, successor)", a[0], a[1])
				}
			}
			del := f.Calls(an.CalleeNamed("ResolveContract"), false)
			if need(o, f, "ResolveContract", del, 1) {
				// every deletion site: the one for a contract restored in the
				// resolved state and the one of the resolution loop
				for _, d := range del {
					guarded(o, f, d, an.Truth(an.CallNamed("IsResolved", an.Param(0)), true, "currentContract.IsResolved()"))
				}
			}
			sc := p.Func(cc + "boltArbitratorLog.SwapContract")
			lf := theLit(sc, kvUpdate, "SwapContract transaction")
			if lf != nil {
				d := lf.Calls(an.CalleeNamed("Delete"), false)
				w := lf.Calls(an.CalleeIs(cc+"boltArbitratorLog.writeResolver"), false)
				if need(o, lf, "Delete", d, 1) && need(o, lf, "writeResolver", w, 1) {
					if !lf.PostDominatedOrFails(d[0], w[0]) {
						o.FailAt(sc.ID+"#delete-without-write", d[0].Where(), "SwapContract can delete the old contract and succeed without writing the new one")
					}
					if a := lf.ArgCanon(w[0]); a[1] != "$p1" {
						o.FailAt(sc.ID+"#written", w[0].Where(), "SwapContract writes %s, expected the new contract", a[1])
					}
				}
			}
		})

	retrySafeClosures(r, []string{"contractcourt"}, `.`, 8, "the arbitrator log and the resolver checkpoints are the recorded stage the restart resumes from; a retried transaction must write exactly what the first attempt would have")

	relaunchCompleteness(r)
}
