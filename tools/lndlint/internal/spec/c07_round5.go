package spec

import (
	"go/ast"
	"go/types"
	"strings"

	"lndlint/internal/an"
)

func init() { specExtras["C07"] = append(specExtras["C07"], c07r5Rules) }

// c07r5MtxUnlocks lists the points at which f gives up the circuit map's
// write lock: explicit $recv.mtx.Unlock() calls of its own flow graph and, if
// the unlock is deferred, every return.
func c07r5MtxUnlocks(f *an.Func) []an.Site {
	var out []an.Site
	deferred := false
	for _, s := range f.Calls(an.CalleeNamed("Unlock"), false) {
		c := s.Node.(*ast.CallExpr)
		sel, ok := ast.Unparen(c.Fun).(*ast.SelectorExpr)
		if !ok || f.Canon(sel.X) != "$recv.mtx" {
			continue
		}
		if c07IsDeferredCall(f, c) {
			deferred = true
			continue
		}
		out = append(out, s)
	}
	if deferred {
		out = append(out, f.Returns()...)
	}
	return out
}

func c07r5Rules(r *an.Run) {
	p := r.Prog

	r.Obl("closing-marker-leaves-together-with-the-open-entry", "PATH",
		"every circuitMap method that removes a closing marker, delete(closed, K), found the circuit by a lookup pending[K] and, on every path from that removal to the next release of mtx (explicit Unlock, or the returns when the unlock is deferred), removes that same circuit's entry delete(opened, circuit.OutKey()), unless circuit.HasKeystone() answered false",
		"closed[K] is the only arbiter between competing responses and CloseCircuit finds its circuit through `opened`: a circuit that is visible in `opened` at a moment at which the lock is free and its marker is gone is handed out a second time (the duplicate of an already relayed response arriving while DeleteCircuits waits for its batch write is accepted)", 3,
		func(o *an.Obl) {
			n := 0
			for _, f := range p.Funcs(false, "htlcswitch") {
				if f.Lit != nil || !strings.HasPrefix(f.ID, hs+"circuitMap.") {
					continue
				}
				dels := f.Calls(an.CalleeIs("builtin.delete"), false)
				for _, d := range dels {
					a := f.ArgCanon(d)
					if len(a) != 2 || a[0] != "$recv.closed" {
						continue
					}
					n++
					o.Site("%s removes the closing marker of %s: %s", f.ID, a[1], d.String())
					var lk *c07f5Lookup
					lks := c07f5Lookups(f)
					for i := range lks {
						if lks[i].mapCanon == "$recv.pending" && lks[i].keyCanon == a[1] && lks[i].val != nil {
							lk = &lks[i]
						}
					}
					if lk == nil {
						o.FailAt(constructOf(f, d)+"#circuit-of-marker", d.Where(), "%s removes closed[%s] but does not look the circuit up in pending[%s]: the circuit whose marker goes cannot be identified", f.ID, a[1], a[1])
						continue
					}
					circ := c07f5ObjTerm(lk.val)
					var rem []an.Site
					for _, d2 := range dels {
						c := d2.Node.(*ast.CallExpr)
						if a2 := f.ArgCanon(d2); len(a2) == 2 && a2[0] == "$recv.opened" && an.Match(f, an.CallNamed("OutKey", circ), c.Args[1]) {
							rem = append(rem, d2)
							o.Site("%s removes the open entry of the same circuit: %s", f.ID, d2.String())
						}
					}
					unlocks := c07r5MtxUnlocks(f)
					if len(unlocks) == 0 {
						o.FailAt(f.ID+"#no-unlock", f.Where(f.Body.Pos()), "%s removes a closing marker but no release of $recv.mtx was found", f.ID)
						continue
					}
					if len(rem) == 0 {
						o.FailAt(constructOf(f, d)+"#open-entry-stays", d.Where(), "%s removes the closing marker closed[%s] but never removes the circuit found under pending[%s] from `opened` in the same critical section: between the release of mtx and a later removal CloseCircuit finds the circuit without marker and accepts a second response", f.ID, a[1], a[1])
						continue
					}
					mustDoUnlessFrom(o, f, d.V, "removing the circuit's entry from `opened`", rem, unlocks,
						an.Truth(an.CallNamed("HasKeystone", circ), false, "the circuit has no keystone"))
				}
			}
			if n < 1 {
				o.FailAt(hs+"circuitMap#closed-removal", "", "no circuitMap method removes closing markers any more (DeleteCircuits did)")
			}
		})

	r.Obl("stored-resolution-removed-only-without-open-circuit", "GUARD",
		"every call of resolutionStore.deleteResolutionMsg(&K) in htlcswitch is dominated by the answer nil of LookupOpenCircuit(K) for the same key K: a stored on-chain resolution is erased only once the circuit it resolves is no longer open",
		"the stored message is what cleanClosedChannels consults (CheckResolutionMsg) to keep the circuit of a fully closed outgoing channel and what reforwardResolutions replays; handing the message to a mailbox is not durable: if it is erased while the circuit is open, the next restart purges the circuit and nothing delivers the resolution to the incoming channel", 2,
		func(o *an.Obl) {
			n := 0
			for _, f := range p.Funcs(false, "htlcswitch") {
				for _, s := range f.Calls(an.CalleeIs(hs+"resolutionStore.deleteResolutionMsg"), false) {
					if f.Root().ID == hs+"resolutionStore.deleteResolutionMsg" {
						continue
					}
					n++
					arg := ast.Unparen(callArg(s, 0))
					if u, ok := arg.(*ast.UnaryExpr); ok {
						arg = ast.Unparen(u.X)
					}
					key := f.Canon(arg)
					o.Site("%s erases the stored resolution of %s", s.String(), key)
					kt := canonTerm(`^` + regexpQuote(key) + `$`)
					if v, isVar := c07f5ObjOf(f.Info(), arg).(*types.Var); isVar {
						// a local: the very same variable, not merely one of its type
						kt = c07f5ObjTerm(v)
						key = f.VarName(v)
					}
					guarded(o, f, s, an.IsNil(an.CallNamed("LookupOpenCircuit", an.Any(), kt), true,
						"no circuit is open under that outgoing key (LookupOpenCircuit("+key+") == nil)"))
				}
			}
			if n < 1 {
				o.FailAt(hs+"Switch.reforwardResolutions#delete", "", "no call of deleteResolutionMsg found (reforwardResolutions removed the messages of circuits that are gone)")
			}
		})
}
