package spec

import (
	"go/ast"
	"strings"

	"lndlint/internal/an"
)

// justiceLockTime: for channels with a lease expiration the node's own
// to_remote output on the counterparty's commitment is encumbered by
// `<lease expiry> OP_CHECKLOCKTIMEVERIFY`.  NewBreachRetribution builds that
// script whenever the channel type has a lease, so a justice transaction that
// spends the output must carry a lock time, which requires the breached output
// to report one and the transaction builder to apply it.
func justiceLockTime(r *an.Run) {
	p := r.Prog
	r.Obl("justice-tx-honours-lease-locktime", "PATH",
		"NewBreachRetribution hands the channel's lease expiry to CommitScriptToRemote whenever the channel type has one; therefore breachedOutput.RequiredLockTime is not a constant (it depends on the output) and sweepSpendableOutputsTxn, which builds every justice transaction, assigns the transaction's LockTime",
		"a CHECKLOCKTIMEVERIFY-encumbered input in a transaction with lock time 0 makes the whole justice transaction invalid: neither the revoked to_local output nor the node's own output is swept", 3,
		func(o *an.Obl) {
			nb := p.Func("lnwallet.NewBreachRetribution")
			premise := false
			for _, s := range nb.Calls(an.CalleeIs("lnwallet.CommitScriptToRemote"), false) {
				c := s.Node.(*ast.CallExpr)
				lease := an.Text(c.Args[3])
				o.Site("%s lease argument %s", s.String(), lease)
				if lease != "0" {
					premise = true
					// the lock time the justice transaction needs is the one
					// in the script: the lease argument is the channel's thaw
					// height itself, selected once (a second assignment or an
					// arithmetic step makes the canonical form a bare local)
					if lc := nb.Canon(c.Args[3]); !reMatch(`^\$p0\.ThawHeight$`, lc) {
						o.FailAt(nb.ID+"#lease-argument", s.Where(), "the to_remote script of the breached commitment is built with lease expiry %s, expected the channel's ThawHeight selected once under HasLeaseExpiration()", lc)
					}
					c04OperandsNotOverwritten(o, nb, c.Args[3], "lease expiry")
				}
				if id, ok := c.Args[3].(*ast.Ident); ok {
					for _, as := range nb.Assigns(an.LocalNamed(id.Name), false) {
						if rhs := an.Text(as.Node.(*ast.AssignStmt).Rhs[0]); rhs == "chanState.ThawHeight" {
							guarded(o, nb, as, an.Truth(an.CallNamed("HasLeaseExpiration", nil), true, "ChanType.HasLeaseExpiration()"))
						}
					}
				}
			}
			if !premise {
				o.Site("no lease-encumbered to_remote script is built for breach retributions: nothing to honour")
				return
			}
			rl := p.Func("contractcourt.breachedOutput.RequiredLockTime")
			dep := false
			ast.Inspect(rl.Body, func(n ast.Node) bool {
				if id, ok := n.(*ast.Ident); ok && rl.Canon(id) == "$recv" {
					dep = true
				}
				return true
			})
			o.Site("breachedOutput.RequiredLockTime depends on the output: %v", dep)
			if !dep {
				o.FailAt(rl.ID+"#constant", rl.Where(rl.Body.Pos()), "breachedOutput.RequiredLockTime returns the same answer for every output although lease channels give the node's own to_remote output a CHECKLOCKTIMEVERIFY")
			}
			sw := p.Func("contractcourt.BreachArbitrator.sweepSpendableOutputsTxn")
			nLT := 0
			for _, v := range sw.Graph().V {
				as, ok := v.Node.(*ast.AssignStmt)
				if !ok {
					continue
				}
				for _, l := range as.Lhs {
					if sel, ok := l.(*ast.SelectorExpr); ok && sel.Sel.Name == "LockTime" && strings.Contains(an.TypeID(sw.Info().TypeOf(sel.X)), "MsgTx") {
						nLT++
						o.Site("justice tx lock time = %s", an.Text(as.Rhs[0]))
					}
				}
			}
			if nLT == 0 {
				o.FailAt(sw.ID+"#locktime-never-set", sw.Where(sw.Body.Pos()), "sweepSpendableOutputsTxn never assigns the justice transaction's LockTime: an input that needs a lock time cannot be spent")
			}
		})
}

// scriptPathPairs: a taproot script-path spend needs the witness script and
// the control block of the SAME leaf.  Inside one function that prepares sign
// descriptors, every leaf a control block is requested for must also be the
// leaf of a witness script that function obtains.
func scriptPathPairs(r *an.Run, id string, floor int) {
	p := r.Prog
	r.Obl("control-block-matches-witness-script-leaf", "MIRROR",
		"in every function of lnwallet and contractcourt that calls CtrlBlockForPath, the script paths it requests control blocks for are (as a multiset) among the script paths it requests witness scripts for with WitnessScriptForPath",
		"a control block that proves another leaf than the one whose script is revealed makes the taproot script spend invalid: the output cannot be swept (revoked to_local, HTLC, delayed to_local)", floor,
		func(o *an.Obl) {
			n := 0
			for _, f := range p.Funcs(false, "lnwallet", "contractcourt") {
				if f.Lit != nil {
					continue
				}
				ctrl := map[string]int{}
				wit := map[string]int{}
				var first an.Site
				for _, fn := range append([]*an.Func{f}, f.Lits...) {
					for _, s := range fn.AllCalls(false) {
						c := s.Node.(*ast.CallExpr)
						sel, ok := c.Fun.(*ast.SelectorExpr)
						if !ok || len(c.Args) != 1 {
							continue
						}
						switch sel.Sel.Name {
						case "CtrlBlockForPath":
							ctrl[fn.Canon(c.Args[0])]++
							if first.Node == nil {
								first = s
							}
						case "WitnessScriptForPath":
							wit[fn.Canon(c.Args[0])]++
						}
					}
				}
				if len(ctrl) == 0 {
					continue
				}
				n++
				o.Site("%s: control blocks for %v, witness scripts for %v", f.ID, ctrl, wit)
				for path, k := range ctrl {
					if wit[path] < k {
						o.FailAt(f.ID+"#ctrl-block-leaf:"+path, first.Where(), "%s requests %d control block(s) for %s but only %d witness script(s) for that leaf (witness scripts: %v)", f.ID, k, path, wit[path], wit)
					}
				}
			}
			if n < floor {
				o.FailAt("CtrlBlockForPath#functions", "", "expected at least %d functions that request control blocks, found %d", floor, n)
			}
		})
}

// secondLevelConversion: when the cheater advanced an HTLC to its second
// level, the breached output is re-pointed at the second-level output.  With
// SINGLE|ANYONECANPAY second-level transactions that output sits at the index
// of the spending INPUT, not at index 0.
func secondLevelConversion(r *an.Run) {
	p := r.Prog
	r.Obl("second-level-output-is-at-the-spender-input-index", "ROLE",
		"convertToSecondLevelRevoke re-points the breached output at (spending tx hash, spendDetails.SpenderInputIndex), takes amount and pkScript from spendingTx.TxOut[that same index], and swaps in the stored second-level witness script and tap tweak; updateBreachInfo reads the spending input with that index as well",
		"second-level HTLC transactions of anchor and taproot channels can carry fee inputs in front or be aggregated: index 0 is another party's output, the justice transaction is rejected or has duplicate inputs", 6,
		func(o *an.Obl) {
			f := p.Func("contractcourt.convertToSecondLevelRevoke")
			idx := "$p2.SpenderInputIndex"
			want := map[string]string{
				"bo.outpoint":                 "OutPoint{Hash: $p2.SpendingTx.TxHash(), Index: " + idx + "}",
				"newAmt":                      "$p2.SpendingTx.TxOut[" + idx + "].Value",
				"bo.signDesc.Output.PkScript": "$p2.SpendingTx.TxOut[" + idx + "].PkScript",
				"bo.signDesc.Output.Value":    "$p2.SpendingTx.TxOut[" + idx + "].Value",
				"bo.amt":                      "Amount($p2.SpendingTx.TxOut[" + idx + "].Value)",
				"bo.signDesc.WitnessScript":   "$p0.secondLevelWitnessScript",
				"bo.signDesc.TapTweak":        "$p0.secondLevelTapTweak[:]",
			}
			seen := map[string]bool{}
			for _, v := range f.Graph().V {
				as, ok := v.Node.(*ast.AssignStmt)
				if !ok || len(as.Lhs) != 1 || len(as.Rhs) != 1 {
					continue
				}
				l := an.Text(as.Lhs[0])
				w, ok := want[l]
				if !ok {
					continue
				}
				seen[l] = true
				got := f.Canon(as.Rhs[0])
				o.Site("%s = %s", l, got)
				// compare modulo the import path prefix of a type conversion / literal
				strip := func(x string) string { return reSub(`[A-Za-z0-9_./-]+/v2\.`, "", x) }
				if strip(got) != strip(w) && strip(got) != w {
					o.FailAt(f.ID+"#"+l, f.Where(as.Pos()), "%s is set to %s, expected %s", l, got, w)
				}
			}
			for l := range want {
				if !seen[l] {
					o.FailAt(f.ID+"#missing-"+l, f.Where(f.Body.Pos()), "the conversion no longer sets %s", l)
				}
			}
			u := p.Func("contractcourt.updateBreachInfo")
			n := 0
			for _, v := range u.Graph().V {
				as, ok := v.Node.(*ast.AssignStmt)
				if !ok || len(as.Lhs) != 1 || an.Text(as.Lhs[0]) != "txIn" {
					continue
				}
				n++
				got := an.Text(as.Rhs[0])
				o.Site("updateBreachInfo txIn = %s", got)
				if got != "s.detail.SpendingTx.TxIn[s.detail.SpenderInputIndex]" {
					o.FailAt(u.ID+"#spending-input", u.Where(as.Pos()), "the spending input examined is %s", got)
				}
			}
			if n != 1 {
				o.FailAt(u.ID+"#spending-input-site", u.Where(u.Body.Pos()), "expected one read of the spending input, found %d", n)
			}
		})
}
