package contractcourt

import (
	"context"
	"errors"
	"sync/atomic"
	"testing"

	"github.com/btcsuite/btcd/wire/v2"
	"github.com/lightningnetwork/lnd/chainntnfs"
	"github.com/lightningnetwork/lnd/channeldb"
	"github.com/lightningnetwork/lnd/fn/v2"
	"github.com/lightningnetwork/lnd/input"
	"github.com/lightningnetwork/lnd/invoices"
	"github.com/lightningnetwork/lnd/lntypes"
	"github.com/lightningnetwork/lnd/lnwallet"
	"github.com/stretchr/testify/require"
)

// Complementary probes: they guard the other side of the repairs of
// zz_probe_1_test.go (the behaviour must be corrected, not removed).

// probe2AssertClosesAt feeds the blocks from..to and asserts that the go to
// chain decision is taken exactly at the height `at`.
func probe2AssertClosesAt(t *testing.T, ctx *chanArbTestCtx,
	arbLog *mockArbitratorLog, from, at int32) {

	t.Helper()

	for h := from; h < at; h++ {
		require.NoError(t, ctx.chanArb.ProcessBlock(newBeatFromHeight(h)))

		select {
		case s := <-arbLog.newStates:
			t.Fatalf("height %d: early transition to %v", h, s)
		default:
		}
	}

	require.NoError(t, ctx.chanArb.ProcessBlock(newBeatFromHeight(at)))
	ctx.AssertStateTransitions(
		StateBroadcastCommit, StateCommitmentBroadcasted,
	)
}

// A received HTLC that has an output and whose preimage is known still forces
// the close IncomingBroadcastDelta blocks before its expiry, also when a dust
// one sits next to it.
func TestProbe2ReceivedWithPreimageStillForcesClose(t *testing.T) {
	t.Parallel()

	ctx, arbLog := probeArb(t)
	chanArb := ctx.chanArb

	preimage := lntypes.Preimage{1, 2, 3}
	beacon := newMockWitnessBeacon()
	beacon.lookupPreimage[preimage.Hash()] = preimage
	chanArb.cfg.PreimageDB = beacon

	probeStart(t, ctx)

	dustIn := channeldb.HTLC{
		Incoming:      true,
		Amt:           100_000,
		HtlcIndex:     3,
		RefundTimeout: 60,
		OutputIndex:   -1,
		RHash:         preimage.Hash(),
	}
	in := channeldb.HTLC{
		Incoming:      true,
		Amt:           10_000_000,
		HtlcIndex:     4,
		RefundTimeout: 100,
		OutputIndex:   1,
		RHash:         preimage.Hash(),
	}
	for _, key := range []HtlcSetKey{LocalHtlcSet, RemoteHtlcSet} {
		chanArb.notifyContractUpdate(&ContractUpdate{
			HtlcKey: key,
			Htlcs:   []channeldb.HTLC{dustIn, in},
		})
	}

	probe2AssertClosesAt(t, ctx, arbLog, 50, 95)
}

// openInvoiceRegistry knows the hash, the invoice is open.
type openInvoiceRegistry struct {
	*mockRegistry

	preimage lntypes.Preimage
	state    invoices.ContractState
}

func (r *openInvoiceRegistry) LookupInvoice(context.Context,
	lntypes.Hash) (invoices.Invoice, error) {

	return invoices.Invoice{
		State: r.state,
		Terms: invoices.ContractTerm{
			PaymentPreimage: &r.preimage,
			Value:           5_000,
		},
	}, nil
}

// A received HTLC for an invoice that can still be settled forces the close.
func TestProbe2ReceivedForOpenInvoiceStillForcesClose(t *testing.T) {
	t.Parallel()

	for _, state := range []invoices.ContractState{
		invoices.ContractOpen, invoices.ContractAccepted,
		invoices.ContractSettled,
	} {
		ctx, arbLog := probeArb(t)
		chanArb := ctx.chanArb

		preimage := lntypes.Preimage{9, 9, 9}
		chanArb.cfg.Registry = &openInvoiceRegistry{
			mockRegistry: &mockRegistry{},
			preimage:     preimage,
			state:        state,
		}
		probeStart(t, ctx)

		in := channeldb.HTLC{
			Incoming:      true,
			Amt:           10_000_000,
			HtlcIndex:     3,
			RefundTimeout: 100,
			OutputIndex:   1,
			RHash:         preimage.Hash(),
		}
		for _, key := range []HtlcSetKey{LocalHtlcSet, RemoteHtlcSet} {
			chanArb.notifyContractUpdate(&ContractUpdate{
				HtlcKey: key,
				Htlcs:   []channeldb.HTLC{in},
			})
		}

		probe2AssertClosesAt(t, ctx, arbLog, 90, 95)
	}
}

// flakyChannel fails the first force close attempts.
type flakyChannel struct {
	*mockChannel

	failures int32
	calls    atomic.Int32
}

func (f *flakyChannel) ForceCloseChan() (*wire.MsgTx, error) {
	if f.calls.Add(1) <= f.failures {
		return nil, errors.New("remote signer: connection refused")
	}

	return f.mockChannel.ForceCloseChan()
}

// If creating the force close transaction fails (signer not reachable), the
// following blocks try again, and the state machine moves on as soon as it
// works.
func TestProbe2ForceCloseRetriedByLaterBlocks(t *testing.T) {
	t.Parallel()

	ctx, arbLog := probeArb(t)
	chanArb := ctx.chanArb

	flaky := &flakyChannel{mockChannel: &mockChannel{}, failures: 2}
	chanArb.cfg.Channel = flaky

	var publishes atomic.Int32
	chanArb.cfg.PublishTx = func(*wire.MsgTx, string) error {
		publishes.Add(1)
		return nil
	}
	probeStart(t, ctx)

	htlc := channeldb.HTLC{
		Incoming:      false,
		Amt:           10_000_000,
		HtlcIndex:     1,
		RefundTimeout: 100,
		OutputIndex:   1,
	}
	for _, key := range []HtlcSetKey{LocalHtlcSet, RemoteHtlcSet} {
		chanArb.notifyContractUpdate(&ContractUpdate{
			HtlcKey: key,
			Htlcs:   []channeldb.HTLC{htlc},
		})
	}

	require.NoError(t, chanArb.ProcessBlock(newBeatFromHeight(95)))
	ctx.AssertStateTransitions(StateBroadcastCommit)
	require.NoError(t, chanArb.ProcessBlock(newBeatFromHeight(96)))
	require.Zero(t, publishes.Load())

	select {
	case s := <-arbLog.newStates:
		t.Fatalf("unexpected transition to %v", s)
	default:
	}

	// Third attempt works.
	require.NoError(t, chanArb.ProcessBlock(newBeatFromHeight(97)))
	ctx.AssertStateTransitions(StateCommitmentBroadcasted)
	require.EqualValues(t, 3, flaky.calls.Load())
	require.EqualValues(t, 1, publishes.Load())

	// And no further broadcasts by the arbitrator afterwards.
	require.NoError(t, chanArb.ProcessBlock(newBeatFromHeight(98)))
	require.EqualValues(t, 3, flaky.calls.Load())
	require.EqualValues(t, 1, publishes.Load())
}

// The HTLC that is dust on our commitment and has an output on theirs: if OUR
// commitment confirms, it's failed back exactly once, at confirmation, and
// gets no resolver.
func TestProbe2DustOnLocalOutputOnRemoteLocalConfirms(t *testing.T) {
	t.Parallel()

	ctx, arbLog := probeArb(t)
	chanArb := ctx.chanArb
	probeStart(t, ctx)

	const htlcIndex = uint64(5)
	onLocal := channeldb.HTLC{
		Incoming:      false,
		Amt:           400_000,
		HtlcIndex:     htlcIndex,
		RefundTimeout: 100,
		OutputIndex:   -1,
	}
	onRemote := onLocal
	onRemote.OutputIndex = 2

	// Dust everywhere: cancelled back right away, as before.
	dustAll := channeldb.HTLC{
		Incoming:      false,
		Amt:           100_000,
		HtlcIndex:     7,
		RefundTimeout: 100,
		OutputIndex:   -1,
	}

	expiring := channeldb.HTLC{
		Incoming:      false,
		Amt:           10_000_000,
		HtlcIndex:     6,
		RefundTimeout: 50,
		OutputIndex:   3,
	}

	chanArb.notifyContractUpdate(&ContractUpdate{
		HtlcKey: LocalHtlcSet,
		Htlcs:   []channeldb.HTLC{onLocal, dustAll, expiring},
	})
	chanArb.notifyContractUpdate(&ContractUpdate{
		HtlcKey: RemoteHtlcSet,
		Htlcs:   []channeldb.HTLC{onRemote, dustAll, expiring},
	})

	require.NoError(t, chanArb.ProcessBlock(newBeatFromHeight(45)))
	ctx.AssertStateTransitions(
		StateBroadcastCommit, StateCommitmentBroadcasted,
	)

	failedBack := map[uint64]int{}
	drain := func() {
		for {
			select {
			case msgs := <-ctx.resolutions:
				for _, m := range msgs {
					if m.Failure != nil {
						failedBack[m.HtlcIndex]++
					}
				}
			default:
				return
			}
		}
	}
	drain()
	require.Equal(t, 1, failedBack[7], "dust on all commitments is "+
		"cancelled back at the decision to go to chain")
	require.Zero(t, failedBack[htlcIndex], "not before a commitment "+
		"is confirmed")

	closeTx := &wire.MsgTx{
		TxIn: []*wire.TxIn{{
			PreviousOutPoint: wire.OutPoint{},
			Witness:          [][]byte{{0x1}, {0x2}},
		}},
	}
	outgoingRes := lnwallet.OutgoingHtlcResolution{
		Expiry: 50,
		SweepSignDesc: input.SignDescriptor{
			Output: &wire.TxOut{},
		},
		SignedTimeoutTx: &wire.MsgTx{
			TxIn: []*wire.TxIn{{
				PreviousOutPoint: wire.OutPoint{
					Hash: closeTx.TxHash(), Index: 3,
				},
				Witness: [][]byte{{}},
			}},
			TxOut: []*wire.TxOut{{}},
		},
	}

	//nolint:ll
	chanArb.cfg.ChainEvents.LocalUnilateralClosure <- &LocalUnilateralCloseInfo{
		SpendDetail: &chainntnfs.SpendDetail{},
		LocalForceCloseSummary: &lnwallet.LocalForceCloseSummary{
			CloseTx: closeTx,
			ContractResolutions: fn.Some(lnwallet.ContractResolutions{
				HtlcResolutions: &lnwallet.HtlcResolutions{
					OutgoingHTLCs: []lnwallet.OutgoingHtlcResolution{
						outgoingRes,
					},
				},
			}),
		},
		ChannelCloseSummary: &channeldb.ChannelCloseSummary{},
		CommitSet: CommitSet{
			ConfCommitKey: fn.Some(LocalHtlcSet),
			HtlcSets: map[HtlcSetKey][]channeldb.HTLC{
				LocalHtlcSet:  {onLocal, dustAll, expiring},
				RemoteHtlcSet: {onRemote, dustAll, expiring},
			},
		},
	}
	ctx.AssertStateTransitions(
		StateContractClosed, StateWaitingFullResolution,
	)
	drain()

	require.Equal(t, 1, failedBack[htlcIndex], "dust on the confirmed "+
		"commitment must be cancelled back exactly once")
	require.Equal(t, 1, failedBack[7])
	require.Zero(t, failedBack[6])

	arbLog.Lock()
	defer arbLog.Unlock()
	htlcResolvers := 0
	for r := range arbLog.resolvers {
		if hr, ok := r.(htlcContractResolver); ok {
			htlcResolvers++
			require.EqualValues(t, 3, hr.HtlcPoint().Index)
		}
	}
	require.Equal(t, 1, htlcResolvers)
}
