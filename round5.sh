#!/bin/bash
# usage: round5.sh <Cxx> <variant>   confirms a delivery of the fifth seeding round (SEEDROOT/<Cxx>/out/<v>) with verify_seed.sh
# and then runs the property's quick check blind against it (scratch worktree); prints the verdict line.
id="$1"; v="$2"; shift 2; export SEEDROOT=${SEEDROOT:-/tmp/seed5}
src=$SEEDROOT/$id/out/$v
pkg=$(grep -m1 -i "^demo_package:" "$src/README.md" | sed 's/^[^:]*: *//; s/`//g; s|^\./||; s|/$||; s/ .*//')
[ -z "$pkg" ] && { echo "$id-$v: no demo_package in README"; exit 2; }
cd /verif
./verify_seed.sh "$id" "$v" "$pkg" "$@" > /tmp/round5.$id-$v.verify 2>&1
conf=$(python3 -c "import json;print(json.load(open('/verif/seeded/$id-$v/meta.json'))['confirmed'])" 2>/dev/null)
fails=$(python3 -c "import json;print(';'.join(json.load(open('/verif/seeded/$id-$v/meta.json'))['failing_existing_tests_with_patch']))" 2>/dev/null)
blind=$(WT=/tmp/triage-$id-$v ./trybenign.sh /verif/seeded/$id-$v/patch.diff $id 2>&1 | grep "^  obligation " | sed 's/^  obligation [A-Z0-9]*\/[A-Z]*\///; s/ \[.*//' | sort -u | paste -sd',')
git -C /repo worktree remove --force /tmp/triage-$id-$v 2>/dev/null
echo "$id-$v confirmed=$conf existing_fail=[$fails] blind=[${blind:-NOT REPORTED}]"
