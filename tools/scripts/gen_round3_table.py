#!/usr/bin/env python3
# Fills the <!-- GEN:round3 --> block of DESIGN.md from seeded/REPORT.md (seeds e and f).
import re
blind=set("C02e C02f C03e C06e C06f C07e C09f C11e C11f C12e C14e C15f C16f C17e C19e C20f".split())
rows={}
for l in open('/verif/seeded/REPORT.md'):
    m=re.match(r'\| (C\d\d)-([ef]) \| (.*?) \| (.*?) \|$', l.strip())
    if m: rows[(m.group(1),m.group(2))]=(m.group(3),m.group(4))
out=["| Seed | Change | Reported by | |","|---|---|---|---|"]
for k in sorted(rows):
    t,o=rows[k]
    t=re.sub(r'^(Seed |seeded change )?C\d\d\s*[/-]?\s*(seed )?[ef]\s*[—:–-]+\s*','',t,flags=re.I)
    out.append("| %s‑%s | %s | %s | %s |"%(k[0],k[1],t[:120],o,'B' if k[0]+k[1] in blind else 'S'))
out.append("| C12‑f | early dust fail-back of StateDefault restricted to our own broadcast | (obsolete since b3aa835, `seeded-obsolete/`) | S |")
s=open('/verif/DESIGN.md').read()
s=re.sub(r'<!-- GEN:round3 -->.*?<!-- /GEN:round3 -->','<!-- GEN:round3 -->\n'+"\n".join(out)+'\n<!-- /GEN:round3 -->',s,flags=re.S)
open('/verif/DESIGN.md','w').write(s)
print(len(out)-2,'rows')
