package peer

import (
	"bytes"
	"testing"

	"github.com/btcsuite/btcd/btcutil/v2"
	"github.com/btcsuite/btcd/chaincfg/v2"
	"github.com/btcsuite/btcd/mempool"
	"github.com/btcsuite/btcd/txscript/v2"
	"github.com/lightningnetwork/lnd/channeldb"
	"github.com/lightningnetwork/lnd/lntypes"
	"github.com/lightningnetwork/lnd/lnwallet"
	"github.com/lightningnetwork/lnd/lnwallet/chainfee"
	"github.com/lightningnetwork/lnd/lnwallet/chancloser"
	"github.com/lightningnetwork/lnd/lnwire"
	"github.com/lightningnetwork/lnd/tlv"
	"github.com/stretchr/testify/require"
)

func probe2Script(b byte) lnwire.DeliveryAddress {
	return append(
		[]byte{txscript.OP_0, txscript.OP_DATA_20},
		bytes.Repeat([]byte{b}, 20)...,
	)
}

// probe2Env wires the RBF close state machine to a real channel exactly the
// way Brontide.initRbfChanCloser does: the channel signs, and the balances
// come from the chanObserver.
func probe2Env(ch *lnwallet.LightningChannel) (*chancloser.Environment,
	*chanObserver) {

	chanPoint := ch.ChannelPoint()
	observer := newChanObserver(ch, nil, nil)

	return &chancloser.Environment{
		ChainParams:  chaincfg.RegressionNetParams,
		ChanPoint:    chanPoint,
		ChanID:       lnwire.NewChanIDFromOutPoint(chanPoint),
		ChanType:     ch.ChanType(),
		FeeEstimator: &chancloser.SimpleCoopFeeEstimator{},
		ChanObserver: observer,
		CloseSigner:  ch,
	}, observer
}

func probe2Terms(t *testing.T, observer *chanObserver, local,
	remote lnwire.DeliveryAddress) *chancloser.CloseChannelTerms {

	// With no link the channel counts as flushed, and these are the
	// balances the state machine is handed.
	balances, err := observer.FinalBalances().UnwrapOrErr(nil)
	require.NoError(t, err)

	return &chancloser.CloseChannelTerms{
		ShutdownScripts: chancloser.ShutdownScripts{
			LocalDeliveryScript:  local,
			RemoteDeliveryScript: remote,
		},
		ShutdownBalances: balances,
	}
}

// probe2Channels returns an anchor channel pair where the opener (Alice) is
// left with only openerSat of raw commitment balance.
func probe2Channels(t *testing.T, openerSat btcutil.Amount) (
	*lnwallet.LightningChannel, *lnwallet.LightningChannel) {

	aliceChan, bobChan, err := lnwallet.CreateTestChannels(
		t, channeldb.SingleFunderTweaklessBit|
			channeldb.AnchorOutputsBit|channeldb.ZeroHtlcTxFeeBit,
	)
	require.NoError(t, err)

	aliceState, bobState := aliceChan.State(), bobChan.State()
	openerBal := lnwire.NewMSatFromSatoshis(openerSat)
	delta := aliceState.LocalCommitment.LocalBalance - openerBal

	aliceState.LocalCommitment.LocalBalance -= delta
	aliceState.LocalCommitment.RemoteBalance += delta
	aliceState.RemoteCommitment.LocalBalance -= delta
	aliceState.RemoteCommitment.RemoteBalance += delta
	bobState.LocalCommitment.RemoteBalance -= delta
	bobState.LocalCommitment.LocalBalance += delta
	bobState.RemoteCommitment.RemoteBalance -= delta
	bobState.RemoteCommitment.LocalBalance += delta

	return aliceChan, bobChan
}

// TestProbeCloseeCreditsOpenerBeforeJudgingTheFee: the wallet credits the
// dangling commitment fee (and anchors) back to the channel opener when it
// builds the close transaction, but the balances the peer hands to the RBF
// state machine are the raw commitment balances. An opener with 1000 sat of
// raw balance can pay a 2000 sat closing fee out of the refunded commitment
// fee, both wallets build and verify that transaction, yet the closee state
// refuses the offer with ErrRemoteCannotPay.
func TestProbeCloseeCreditsOpenerBeforeJudgingTheFee(t *testing.T) {
	t.Parallel()

	aliceChan, bobChan := probe2Channels(t, 1_000)
	aliceScript, bobScript := probe2Script(0xa1), probe2Script(0xb0)

	const fee = btcutil.Amount(2_000)
	require.Greater(
		t, aliceChan.CommitFee()+1_000+2*lnwallet.AnchorSize, fee,
	)
	aliceSig, _, aliceLeft, err := aliceChan.CreateCloseProposal(
		fee, aliceScript, bobScript,
		lnwallet.WithCustomSequence(mempool.MaxRBFSequence),
		lnwallet.WithCustomPayer(lntypes.Local),
	)
	require.NoError(t, err)
	t.Logf("opener keeps %v after paying the %v fee", aliceLeft, fee)

	wireSig, err := lnwire.NewSigFromSignature(aliceSig)
	require.NoError(t, err)

	bobEnv, bobObserver := probe2Env(bobChan)
	bobStart := &chancloser.RemoteCloseStart{
		CloseChannelTerms: probe2Terms(
			t, bobObserver, bobScript, aliceScript,
		),
	}
	_, err = bobStart.ProcessEvent(&chancloser.OfferReceivedEvent{
		SigMsg: lnwire.ClosingComplete{
			ChannelID:    bobEnv.ChanID,
			CloserScript: aliceScript,
			CloseeScript: bobScript,
			FeeSatoshis:  fee,
			ClosingSigs: lnwire.ClosingSigs{
				CloserAndClosee: tlv.SomeRecordT(
					tlv.NewRecordT[tlv.TlvType3](wireSig),
				),
			},
		},
	}, bobEnv)
	require.NoError(t, err, "closee refuses a fee the opener can pay "+
		"out of the refunded commitment fee")
}

// TestProbeOpenerOffersOutOfTheRefundedCommitFee is the mirror image: the
// opener is the offering side. Its wallet can sign a close that pays the fee
// out of the refunded commitment fee, but the state machine compares the fee
// with the raw balance and never sends closing_complete.
func TestProbeOpenerOffersOutOfTheRefundedCommitFee(t *testing.T) {
	t.Parallel()

	aliceChan, _ := probe2Channels(t, 1_000)
	aliceScript, bobScript := probe2Script(0xa1), probe2Script(0xb0)

	aliceEnv, aliceObserver := probe2Env(aliceChan)
	aliceTerms := probe2Terms(t, aliceObserver, aliceScript, bobScript)

	feeRate := chainfee.SatPerVByte(10)
	localOut, remoteOut := aliceTerms.DeriveCloseTxOuts()
	fee := aliceEnv.FeeEstimator.EstimateFee(
		aliceEnv.ChanType, localOut, remoteOut, feeRate.FeePerKWeight(),
	)
	require.Greater(t, fee, btcutil.Amount(1_000))

	// The wallet is happy to pay that fee.
	_, _, _, err := aliceChan.CreateCloseProposal(
		fee, aliceScript, bobScript,
		lnwallet.WithCustomSequence(mempool.MaxRBFSequence),
		lnwallet.WithCustomPayer(lntypes.Local),
	)
	require.NoError(t, err)

	aliceStart := &chancloser.LocalCloseStart{CloseChannelTerms: aliceTerms}
	transition, err := aliceStart.ProcessEvent(&chancloser.SendOfferEvent{
		TargetFeeRate: feeRate,
	}, aliceEnv)
	require.NoError(t, err)
	require.IsType(
		t, &chancloser.LocalOfferSent{}, transition.NextState,
		"opener does not offer a close its wallet can pay for",
	)
}
