package paymentsdb

import (
	"crypto/sha256"
	"testing"

	"github.com/lightningnetwork/lnd/record"
	"github.com/stretchr/testify/require"
)

// TestZZProbe3ZeroAmountShards: a shard that delivers nothing to the receiver
// must not be admitted, in particular not on top of a payment whose amount is
// already completely in flight.
func TestZZProbe3ZeroAmountShards(t *testing.T) {
	for name, db := range zzSeedStores(t) {
		ctx := t.Context()

		preimg := genPreimage(t)
		rhash := sha256.Sum256(preimg[:])
		info := genPaymentCreationInfo(t, rhash)
		hash := info.PaymentIdentifier
		require.NoError(t, db.InitPayment(ctx, hash, info))

		mpp := record.NewMPP(info.Value, [32]byte{1})
		a := genAttemptWithHash(t, 0, genSessionKey(t), rhash)
		a.Route.FinalHop().MPP = mpp
		p, err := db.RegisterAttempt(ctx, hash, a)
		require.NoError(t, err)
		require.Zero(t, p.State.RemainingAmt)

		for id := uint64(1); id < 4; id++ {
			b := genAttemptWithHash(t, id, genSessionKey(t), rhash)
			b.Route.FinalHop().MPP = mpp
			b.Route.FinalHop().AmtToForward = 0
			_, err = db.RegisterAttempt(ctx, hash, b)
			require.Errorf(t, err, "%s: zero-amount shard %d "+
				"admitted on a payment that is fully in flight",
				name, id)
		}

		p, err = db.FetchPayment(ctx, hash)
		require.NoError(t, err)
		require.Equal(t, 1, p.State.NumAttemptsInFlight, name)
	}
}
