package spec

import (
	"go/ast"
	"go/token"
	"go/types"
	"sort"
	"strings"

	"lndlint/internal/an"
	"lndlint/internal/flow"
)

// Value pairing for converters that carry a struct across a restart without
// stream I/O (memory <-> disk structs, struct <-> TLV record struct).  The
// CODEC engine compares which fields each side mentions; this file extracts
// WHICH field feeds WHICH (dst field <- src field) on both sides and requires
// the two relations to be inverse to each other.

type c02Pair struct{ dst, src string }

type c02Xfer struct {
	f          *an.Func
	dstT, srcT string
	alias      map[string]string
	pairs      map[c02Pair]string // -> where
}

func (x *c02Xfer) isType(e ast.Expr, T string) bool {
	t := x.f.Info().TypeOf(e)
	return t != nil && an.NamedOf(t) != nil && an.TypeID(t) == T
}

// pathFrom: e selects (a part of) a field of a value of type T; the field
// path is returned.  Conversions, &, *, indexing, slicing and zero-argument
// methods of a field (Copy, Serialize, ...) are looked through; a
// zero-argument method of the T value itself is an accessor and counts as the
// field named by alias (or by the method).
func (x *c02Xfer) pathFrom(e ast.Expr, T string) (string, bool) {
	info := x.f.Info()
	var comps []string
	for {
		e = ast.Unparen(e)
		if x.isType(e, T) {
			if len(comps) == 0 {
				return "", false
			}
			for i, j := 0, len(comps)-1; i < j; i, j = i+1, j-1 {
				comps[i], comps[j] = comps[j], comps[i]
			}
			return strings.Join(comps, "."), true
		}
		switch v := e.(type) {
		case *ast.SelectorExpr:
			if s := info.Selections[v]; s == nil || s.Kind() != types.FieldVal {
				return "", false
			}
			comps = append(comps, v.Sel.Name)
			e = v.X
		case *ast.IndexExpr:
			e = v.X
		case *ast.SliceExpr:
			e = v.X
		case *ast.StarExpr:
			e = v.X
		case *ast.UnaryExpr:
			if v.Op != token.AND {
				return "", false
			}
			e = v.X
		case *ast.CallExpr:
			if tv, ok := info.Types[v.Fun]; ok && tv.IsType() && len(v.Args) == 1 {
				e = v.Args[0]
				continue
			}
			sel, ok := ast.Unparen(v.Fun).(*ast.SelectorExpr)
			if !ok || len(v.Args) != 0 {
				return "", false
			}
			if s := info.Selections[sel]; s == nil || s.Kind() != types.MethodVal {
				return "", false
			}
			if x.isType(sel.X, T) {
				name := sel.Sel.Name
				if a, ok := x.alias[name]; ok {
					name = a
				}
				comps = append(comps, name)
			}
			e = sel.X
		default:
			return "", false
		}
	}
}

// defsOf lists every value assigned to the local obj in the root function.
func (x *c02Xfer) defsOf(obj types.Object) []ast.Expr {
	var out []ast.Expr
	info := x.f.Info()
	ast.Inspect(x.f.Root().Body, func(n ast.Node) bool {
		switch s := n.(type) {
		case *ast.AssignStmt:
			for i, l := range s.Lhs {
				id, ok := ast.Unparen(l).(*ast.Ident)
				if !ok || (info.Defs[id] != obj && info.Uses[id] != obj) {
					continue
				}
				if len(s.Lhs) == len(s.Rhs) {
					out = append(out, s.Rhs[i])
				} else if len(s.Rhs) == 1 {
					out = append(out, s.Rhs[0])
				}
			}
		case *ast.ValueSpec:
			for i, nm := range s.Names {
				if info.Defs[nm] == obj && len(s.Values) == len(s.Names) {
					out = append(out, s.Values[i])
				}
			}
		}
		return true
	})
	return out
}

// closureSource: obj is a parameter of a function literal handed to a method
// of some value (opt.WhenSome(func(v T) {...})); that value is returned.
func (x *c02Xfer) closureSource(obj types.Object) ast.Expr {
	var out ast.Expr
	info := x.f.Info()
	ast.Inspect(x.f.Root().Body, func(n ast.Node) bool {
		c, ok := n.(*ast.CallExpr)
		if !ok {
			return true
		}
		sel, ok := ast.Unparen(c.Fun).(*ast.SelectorExpr)
		if !ok {
			return true
		}
		for _, a := range c.Args {
			lit, ok := ast.Unparen(a).(*ast.FuncLit)
			if !ok || lit.Type.Params == nil {
				continue
			}
			for _, fld := range lit.Type.Params.List {
				for _, nm := range fld.Names {
					if info.Defs[nm] == obj {
						out = sel.X
					}
				}
			}
		}
		return true
	})
	return out
}

// wrapper: calls that only re-package their operands.
func (x *c02Xfer) wrapper(c *ast.CallExpr) bool {
	info := x.f.Info()
	if tv, ok := info.Types[c.Fun]; ok && tv.IsType() {
		return true
	}
	if fn := an.Callee(info, c); fn != nil && fn.Pkg() != nil {
		p := fn.Pkg().Path()
		return strings.HasSuffix(p, "/tlv") || strings.HasSuffix(p, "/fn") || strings.HasSuffix(p, "/fn/v2")
	}
	return false
}

// srcFields: the fields of the source struct whose value flows into e.
func (x *c02Xfer) srcFields(e ast.Expr, depth int, out map[string]bool) {
	if e == nil || depth > 6 {
		return
	}
	e = ast.Unparen(e)
	if p, ok := x.pathFrom(e, x.srcT); ok {
		out[p] = true
		return
	}
	info := x.f.Info()
	switch v := e.(type) {
	case *ast.Ident:
		obj, _ := info.Uses[v].(*types.Var)
		if obj == nil || obj.IsField() || (obj.Pkg() != nil && obj.Parent() == obj.Pkg().Scope()) {
			return
		}
		for _, d := range x.defsOf(obj) {
			x.srcFields(d, depth+1, out)
		}
		if r := x.closureSource(obj); r != nil {
			x.srcFields(r, depth+1, out)
		}
	case *ast.CompositeLit:
		for _, el := range v.Elts {
			if kv, ok := el.(*ast.KeyValueExpr); ok {
				x.srcFields(kv.Value, depth+1, out)
			} else {
				x.srcFields(el, depth+1, out)
			}
		}
	case *ast.CallExpr:
		if x.wrapper(v) {
			for _, a := range v.Args {
				x.srcFields(a, depth+1, out)
			}
			return
		}
		if sel, ok := ast.Unparen(v.Fun).(*ast.SelectorExpr); ok && len(v.Args) == 0 {
			x.srcFields(sel.X, depth+1, out)
		}
	case *ast.UnaryExpr:
		x.srcFields(v.X, depth+1, out)
	case *ast.StarExpr:
		x.srcFields(v.X, depth+1, out)
	case *ast.IndexExpr:
		x.srcFields(v.X, depth+1, out)
	case *ast.SliceExpr:
		x.srcFields(v.X, depth+1, out)
	case *ast.SelectorExpr:
		x.srcFields(v.X, depth+1, out)
	case *ast.BinaryExpr:
		x.srcFields(v.X, depth+1, out)
		x.srcFields(v.Y, depth+1, out)
	}
}

func (x *c02Xfer) addDst(path string, val ast.Expr, at token.Pos) {
	// a nested keyed literal (lntypes.Dual{Local: .., Remote: ..}), possibly
	// through a local with that single definition, sets sub-fields
	lit := func(e ast.Expr) *ast.CompositeLit {
		e = ast.Unparen(e)
		if u, ok := e.(*ast.UnaryExpr); ok && u.Op == token.AND {
			e = ast.Unparen(u.X)
		}
		if id, ok := e.(*ast.Ident); ok {
			if obj, _ := x.f.Info().Uses[id].(*types.Var); obj != nil && !obj.IsField() {
				if ds := x.defsOf(obj); len(ds) == 1 {
					e = ast.Unparen(ds[0])
				}
			}
		}
		cl, _ := e.(*ast.CompositeLit)
		return cl
	}(val)
	if lit != nil && !x.isType(lit, x.dstT) && !x.isType(lit, x.srcT) {
		keyed := len(lit.Elts) > 0
		for _, el := range lit.Elts {
			if _, ok := el.(*ast.KeyValueExpr); !ok {
				keyed = false
			}
		}
		if _, isStruct := x.f.Info().TypeOf(lit).Underlying().(*types.Struct); isStruct && keyed {
			for _, el := range lit.Elts {
				kv := el.(*ast.KeyValueExpr)
				x.addDst(path+"."+an.Text(kv.Key), kv.Value, kv.Pos())
			}
			return
		}
	}
	srcs := map[string]bool{}
	x.srcFields(val, 0, srcs)
	for s := range srcs {
		x.pairs[c02Pair{path, s}] = x.f.Where(at)
	}
}

// c02Transfers extracts the (dst field <- src field) pairs of function id.
func c02Transfers(p *an.Prog, id, dstT, srcT string, alias map[string]string) map[c02Pair]string {
	f := p.Func(id)
	x := &c02Xfer{f: f, dstT: dstT, srcT: srcT, alias: alias, pairs: map[c02Pair]string{}}
	info := f.Info()
	ast.Inspect(f.Body, func(n ast.Node) bool {
		switch v := n.(type) {
		case *ast.CompositeLit:
			if !x.isType(v, dstT) {
				return true
			}
			for _, el := range v.Elts {
				if kv, ok := el.(*ast.KeyValueExpr); ok {
					x.addDst(an.Text(kv.Key), kv.Value, kv.Pos())
				}
			}
		case *ast.AssignStmt:
			if len(v.Lhs) != len(v.Rhs) {
				return true
			}
			for i, l := range v.Lhs {
				if path, ok := x.pathFrom(l, dstT); ok {
					x.addDst(path, v.Rhs[i], v.Pos())
				}
			}
		case *ast.CallExpr:
			if an.CalleeID(info, v) == "builtin.copy" && len(v.Args) == 2 {
				if path, ok := x.pathFrom(v.Args[0], dstT); ok {
					x.addDst(path, v.Args[1], v.Pos())
				}
			}
			if sel, ok := ast.Unparen(v.Fun).(*ast.SelectorExpr); ok && len(v.Args) == 1 && x.isType(sel.X, dstT) {
				if a, ok := alias[sel.Sel.Name]; ok {
					x.addDst(a, v.Args[0], v.Pos())
				}
			}
		}
		return true
	})
	return x.pairs
}

func c02FieldRel(a, b string) bool {
	return a == b || strings.HasPrefix(a, b+".") || strings.HasPrefix(b, a+".")
}

// c02RoundTrip: enc functions fill the disk struct from the memory struct,
// dec functions fill the memory struct from the disk struct.  For every field
// that both sides transfer, the partner fields agree: what is written from
// memory field m into disk field d is read back from d into m.
func c02RoundTrip(o *an.Obl, p *an.Prog, name string, enc, dec []string, diskT, memT string, alias map[string]string, floor int) {
	encP, decP := map[c02Pair]string{}, map[c02Pair]string{}
	for _, id := range enc {
		for k, w := range c02Transfers(p, id, diskT, memT, alias) {
			encP[k] = w
		}
	}
	for _, id := range dec {
		for k, w := range c02Transfers(p, id, memT, diskT, alias) {
			decP[k] = w
		}
	}
	render := func(m map[c02Pair]string) []string {
		var out []string
		for k := range m {
			out = append(out, k.dst+"<-"+k.src)
		}
		sort.Strings(out)
		return out
	}
	o.Site("%s: %v store %v", name, enc, render(encP))
	o.Site("%s: %v restore %v", name, dec, render(decP))
	// per memory field: the disk fields it is stored in / restored from
	group := func(m map[c02Pair]string, keyIsDst bool) map[string][]string {
		out := map[string][]string{}
		for k := range m {
			a, b := k.dst, k.src
			if !keyIsDst {
				a, b = b, a
			}
			out[a] = append(out[a], b)
		}
		for k := range out {
			sort.Strings(out[k])
		}
		return out
	}
	same := func(a, b []string) bool {
		for _, x := range a {
			ok := false
			for _, y := range b {
				ok = ok || c02FieldRel(x, y)
			}
			if !ok {
				return false
			}
		}
		for _, y := range b {
			ok := false
			for _, x := range a {
				ok = ok || c02FieldRel(x, y)
			}
			if !ok {
				return false
			}
		}
		return true
	}
	matched := 0
	check := func(what string, e, d map[string][]string) {
		for m, ed := range e {
			for m2, dd := range d {
				if !c02FieldRel(m, m2) {
					continue
				}
				matched++
				if !same(ed, dd) {
					o.FailAt(name+"#pairing-"+what+"-"+m, "", "%s: %s field %s is stored as %v but restored from %v", name, what, m, ed, dd)
				}
			}
		}
	}
	check("memory", group(encP, false), group(decP, true))
	check("disk", group(encP, true), group(decP, false))
	if matched < floor {
		o.FailAt(name+"#pairing-floor", "", "%s: only %d field pairings could be compared (expected at least %d): the converters moved or use a construct the pairing extractor does not know", name, matched, floor)
	}
}

// c02HtlcDirection: toDiskCommit stores the HTLCs we offered with
// Incoming=false and the ones we received with Incoming=true, both loops
// store the same fields; extractPayDescs partitions on that flag and
// diskCommitToMemCommit puts the partitions back into the lists they came
// from.
func c02HtlcDirection(o *an.Obl, p *an.Prog) {
	f := p.Func(lw + "commitment.toDiskCommit")
	type litInfo struct {
		hdr    string
		fields []string
		inc    string
		appd   bool
		pos    token.Pos
	}
	var lits []litInfo
	ast.Inspect(f.Body, func(n ast.Node) bool {
		cl, ok := n.(*ast.CompositeLit)
		if !ok || an.TypeID(f.Info().TypeOf(cl)) != "chanstate.HTLC" {
			return true
		}
		li := litInfo{hdr: enclosingLoopHeader(f, cl), pos: cl.Pos()}
		for _, el := range cl.Elts {
			if kv, ok := el.(*ast.KeyValueExpr); ok {
				li.fields = append(li.fields, an.Text(kv.Key))
				if an.Text(kv.Key) == "Incoming" {
					li.inc = f.Canon(kv.Value)
				}
			}
		}
		sort.Strings(li.fields)
		lits = append(lits, li)
		return true
	})
	want := map[string]string{"$recv.incomingHTLCs": "true", "$recv.outgoingHTLCs": "false"}
	seen := map[string]bool{}
	for _, li := range lits {
		o.Site("toDiskCommit: HTLC stored in the loop over %s with Incoming=%s, fields %v", li.hdr, li.inc, li.fields)
		seen[li.hdr] = true
		if w, ok := want[li.hdr]; !ok || w != li.inc {
			o.FailAt(f.ID+"#stored-direction-"+li.hdr, f.Where(li.pos), "toDiskCommit stores the HTLCs of %s with Incoming=%s, expected %v", li.hdr, li.inc, want)
		}
		if strings.Join(li.fields, ",") != strings.Join(lits[0].fields, ",") {
			o.FailAt(f.ID+"#stored-fields-"+li.hdr, f.Where(li.pos), "toDiskCommit stores the fields %v for the HTLCs of %s but %v for those of %s", li.fields, li.hdr, lits[0].fields, lits[0].hdr)
		}
	}
	if len(lits) != 2 || len(seen) != 2 {
		o.FailAt(f.ID+"#htlc-literals", f.Where(f.Body.Pos()), "expected one stored HTLC literal in each of the loops over incomingHTLCs and outgoingHTLCs, found %d in %v", len(lits), keys(seen))
	}
	// every HTLC literal is appended to the commitment's Htlcs in its loop
	for _, hd := range c02RangeHeads(f) {
		rs := hd.Node.(*ast.RangeStmt)
		var apps []an.Site
		for _, s := range f.Assigns(an.Field("chanstate.ChannelCommitment", "Htlcs", nil), false) {
			if rs.Pos() <= s.Node.Pos() && s.Node.End() <= rs.End() {
				apps = append(apps, s)
			}
		}
		everyIteration(o, f, "^"+regexpQuote(f.Canon(rs.X))+"$", apps, "append to commit.Htlcs")
	}

	// the reader's partition
	g := p.Func(lw + "LightningChannel.extractPayDescs")
	rets := g.StrictSuccessReturns()
	if len(rets) != 1 {
		o.FailAt(g.ID+"#returns", g.Where(g.Body.Pos()), "expected one success return in extractPayDescs, found %d", len(rets))
		return
	}
	rs := rets[0].Node.(*ast.ReturnStmt)
	flag := canonTerm(`^\$elem\(\$p1\)\.Incoming$`)
	for i, wantInc := range []bool{true, false} {
		obj := c02ObjOf(g, rs.Results[i])
		apps, others := c02AppendsTo(g, obj)
		if len(apps) != 1 || len(others) != 0 {
			o.FailAt(g.ID+"#partition-"+itoa(i), rets[0].Where(), "result %d of extractPayDescs is written by %d appends and %d other statements, expected one append", i, len(apps), len(others))
			continue
		}
		o.Site("extractPayDescs: result %d collects the descriptors with Incoming=%v", i, wantInc)
		guarded(o, g, apps[0].site, an.Truth(flag, wantInc, "htlc.Incoming is "+map[bool]string{true: "true", false: "false"}[wantInc]))
		if c := g.Canon(apps[0].operands[0]); !reMatch(`^\$recv\.diskHtlcToPayDesc\(\$p0, &\$elem\(\$p1\), \$p2, \$p3, `, c) {
			o.FailAt(g.ID+"#partition-elem-"+itoa(i), apps[0].site.Where(), "result %d of extractPayDescs collects %s, expected the converted element of the HTLC list", i, c)
		}
	}
	c02ParamsStable(o, g)
	loopVisitsAll(o, g, `^\$p1$`)
	h := p.Func(lw + "LightningChannel.diskCommitToMemCommit")
	c02ParamsStable(o, h)
	found := 0
	ast.Inspect(h.Body, func(n ast.Node) bool {
		cl, ok := n.(*ast.CompositeLit)
		if !ok || an.TypeID(h.Info().TypeOf(cl)) != "lnwallet.commitment" {
			return true
		}
		for _, el := range cl.Elts {
			kv, ok := el.(*ast.KeyValueExpr)
			if !ok {
				continue
			}
			const call = `^\$recv\.extractPayDescs\((lnwallet/)?chainfee\.SatPerKWeight\(\$p1\.FeePerKw\), \$p1\.Htlcs, .*, \$p0, .*\)`
			switch an.Text(kv.Key) {
			case "incomingHTLCs":
				found++
				if c := h.Canon(kv.Value); !reMatch(call+`$`, c) {
					o.FailAt(h.ID+"#incomingHTLCs", h.Where(kv.Pos()), "the restored commitment's incomingHTLCs are %s, expected result 0 of extractPayDescs(diskCommit.FeePerKw, diskCommit.Htlcs, .., whoseCommit, ..)", c)
				}
			case "outgoingHTLCs":
				found++
				if c := h.Canon(kv.Value); !reMatch(call+`#1$`, c) {
					o.FailAt(h.ID+"#outgoingHTLCs", h.Where(kv.Pos()), "the restored commitment's outgoingHTLCs are %s, expected result 1 of extractPayDescs(diskCommit.FeePerKw, diskCommit.Htlcs, .., whoseCommit, ..)", c)
				}
			case "whoseCommit":
				found++
				if c := h.Canon(kv.Value); c != "$p0" {
					o.FailAt(h.ID+"#whoseCommit", h.Where(kv.Pos()), "the restored commitment's whoseCommit is %s, expected the parameter", c)
				}
			}
		}
		return true
	})
	if found != 3 {
		o.FailAt(h.ID+"#htlc-lists", h.Where(h.Body.Pos()), "diskCommitToMemCommit must set incomingHTLCs, outgoingHTLCs and whoseCommit of the restored commitment (found %d of them)", found)
	}
}

// c02StreamConditions: an element that is written to the stream only under a
// condition on the value is read under the same condition.  For every field of
// the struct handed to a stream call (WriteElement(s) / ReadElement(s)) the
// dominating conditions that mention the struct are compared between the
// encoder and the decoder.
func c02StreamConditions(o *an.Obl, p *an.Prog, name string, enc, dec []string, typeID string) int {
	collect := func(ids []string) map[string][]string {
		out := map[string][]string{}
		for _, id := range ids {
			f := p.Func(id)
			// canonical names of the variables of the struct type
			var names []string
			ast.Inspect(f.Body, func(n ast.Node) bool {
				if idn, ok := n.(*ast.Ident); ok {
					if v, ok := f.Info().Uses[idn].(*types.Var); ok && !v.IsField() && an.NamedOf(v.Type()) != nil && an.TypeID(v.Type()) == typeID {
						names = append(names, f.Canon(idn))
					}
				}
				return true
			})
			names = uniq(names)
			sort.Slice(names, func(i, j int) bool { return len(names[i]) > len(names[j]) })
			mentions := func(c string) (string, bool) {
				hit := false
				for _, nm := range names {
					if strings.Contains(c, nm) {
						hit = true
						c = strings.ReplaceAll(c, nm, "$S")
					}
				}
				return c, hit
			}
			for _, s := range f.AllCalls(false) {
				c := s.Node.(*ast.CallExpr)
				cid := an.CalleeID(f.Info(), c)
				if !reMatch(`^channeldb\.(Write|Read)Elements?$`, cid) {
					continue
				}
				for _, a := range c.Args[1:] {
					sel, ok := an.Strip(f.Info(), a).(*ast.SelectorExpr)
					if !ok || an.TypeID(f.Info().TypeOf(sel.X)) != typeID || an.NamedOf(f.Info().TypeOf(sel.X)) == nil {
						continue
					}
					var conds []string
					g := f.Graph()
					for _, v := range g.V {
						if v.Kind != flow.KCond {
							continue
						}
						for _, e := range v.Out {
							if e.Kind != flow.ETrue && e.Kind != flow.EFalse {
								continue
							}
							if g.Reach(g.Entry, flow.EdgeSet{e: true}, nil)[s.V] {
								continue
							}
							// the error tests of earlier stream calls are not
							// conditions on the value
							if be, ok := ast.Unparen(v.Node.(ast.Expr)).(*ast.BinaryExpr); ok {
								if an.IsErrorType(f.Info().TypeOf(be.X)) || an.IsErrorType(f.Info().TypeOf(be.Y)) {
									continue
								}
							}
							txt, hit := mentions(f.AtomCanon(v))
							neg := e.Kind == flow.EFalse
							switch {
							case reMatch(`^\(bytes\.NewReader\(.*\)\.Len\(\) == 0\)$`, txt):
								// a trailing optional element: read iff bytes remain
								txt, hit = "$absent", true
							case txt == "($S."+sel.Sel.Name+" != nil)":
								// ... and written iff the field itself is set
								txt, neg = "$absent", !neg
							case txt == "($S."+sel.Sel.Name+" == nil)":
								txt = "$absent"
							}
							if !hit {
								continue
							}
							if neg {
								txt = "!" + txt
							}
							conds = append(conds, txt)
						}
					}
					sort.Strings(conds)
					out[sel.Sel.Name] = append(out[sel.Sel.Name], strings.Join(conds, " && "))
				}
			}
		}
		return out
	}
	e, d := collect(enc), collect(dec)
	n := 0
	for fld, ec := range e {
		dc, ok := d[fld]
		if !ok {
			continue
		}
		n++
		a, b := strings.Join(uniq(ec), " | "), strings.Join(uniq(dc), " | ")
		if a != "" || b != "" {
			o.Site("%s: %s is written under [%s] and read under [%s]", name, fld, a, b)
		}
		if a != b {
			o.FailAt(name+"#condition-"+fld, "", "%s: field %s is written to the stream under [%s] but read under [%s]", name, fld, a, b)
		}
	}
	return n
}

// c02XferDefs lists the values assigned to the local that e names in f.
func c02XferDefs(f *an.Func, e ast.Expr) []ast.Expr {
	obj := c02ObjOf(f, e)
	if obj == nil {
		return nil
	}
	x := &c02Xfer{f: f}
	return x.defsOf(obj)
}
