package spec

import (
	"go/ast"
	"go/types"
	"strings"

	"lndlint/internal/an"
)

func init() {
	register(&Spec{
		ID:          "C15",
		Loads:       []LoadSpec{{Patterns: []string{"./invoices", "./channeldb"}}},
		Explanation: "Decides that every place that produces a settle resolution is one of the tabled sites and sits below the complete list of acceptance conditions of its path (open invoice, matching payment address, declared total non-zero and not below the invoice value, every accepted HTLC of the set declaring that same total, set sum reaching the declared total, both expiry margins, not a hold invoice; the legacy and replay paths have their own lists), that the set sum is built only from the accepted set plus the new HTLC, that the AMP preimages are released only when every child hash matched, that a hold invoice is settled by RPC only from the accepted state, that invoice and HTLC states only move forward, that a replayed HTLC is answered from its stored state, that the amount paid is written only by the shared applier from HTLC amounts, that the registry's subscription maps are lock-protected and that both stores route updates through the shared appliers.",
		NotDecided: []string{
			"arithmetic of sums over arbitrary splits (only the operands and comparisons are decided)", "SQL statements of the native SQL store",
			"correctness of the AMP share reconstruction itself",
		},
		Assumptions: commonAssumptions,
		Engines:     "GUARD, WHO, TABLE, PATH, LOCK, MIRROR",
		Run:         runC15,
	})
}

const iv = "invoices."

func runC15(r *an.Run) {
	p := r.Prog

	inv := an.Param(1)
	ctxT := an.Param(0)
	terms := func(f string) an.Term { return an.FieldPath(an.FieldPath(inv, "Terms"), f) }
	state := an.FieldPath(inv, "State")
	cst := func(n string) an.Term { return an.PkgVar("invoices", n) }
	expiryOK := func(o *an.Obl, f *an.Func, s an.Site) {
		for _, d := range []string{"finalCltvRejectDelta", "FinalCltvDelta"} {
			re := `^(uint32\()?\(\$p0\.currentHeight \+ \$p0\.finalCltvRejectDelta\)\)?$`
			if d == "FinalCltvDelta" {
				re = `^(uint32\()?\(\$p0\.currentHeight \+ \$p1\.Terms\.FinalCltvDelta\)\)?$`
			}
			guarded(o, f, s, an.CmpX(an.FieldPath(ctxT, "expiry"), an.GE, canonTerm(re), "ctx.expiry >= currentHeight + "+d))
		}
	}

	r.Obl("settle-sites-and-their-conditions", "GUARD",
		"the package's settle-resolution sites are exactly: updateMpp (1), updateLegacy (2), resolveReplayedHtlc (1) through ctx.settleRes, and the two registry fan-outs over HTLCs already in state Settled; each updateMpp / updateLegacy settle site sits below the full condition list of its path, and every accept site of those two functions (an HTLC held for a partial set, a hold invoice or a duplicate) below the conditions that do not depend on completeness (state, address, totals, both expiry margins)",
		"one missing condition releases the preimage for an underpaid, misaddressed, too-late or incomplete set", 30,
		func(o *an.Obl) {
			want := map[string]int{iv + "updateMpp": 1, iv + "updateLegacy": 2, iv + "resolveReplayedHtlc": 1}
			got := map[string]int{}
			for _, f := range p.Funcs(false, "invoices") {
				for _, s := range f.Calls(an.CalleeIs(iv+"invoiceUpdateCtx.settleRes"), false) {
					got[f.ID]++
					o.Site("%s", s.String())
				}
				for _, s := range f.Calls(an.CalleeIs(iv+"NewSettleResolution"), false) {
					o.Site("%s", s.String())
					switch f.ID {
					case iv + "invoiceUpdateCtx.settleRes":
					case iv + "InvoiceRegistry.notifyExitHopHtlcLocked":
						// fan-out over the set already settled by the update
						hdr := enclosingLoopHeader(f, s.Node)
						if !strings.Contains(hdr, "HTLCSet(") || !strings.Contains(hdr, iv+"HtlcStateSettled") {
							o.FailAt(f.ID+"#fanout", s.Where(), "settle resolutions are fanned out over %s, expected the HTLC set in state Settled", hdr)
						}
						guarded(o, f, s, an.TypeCaseIs(iv+"HtlcSettleResolution", true, "the update returned a settle resolution"))
					case iv + "InvoiceRegistry.SettleHodlInvoice":
						guarded(o, f, s, an.Cmp(an.FieldPath(nil, "State"), an.EQ, cst("HtlcStateSettled"), "htlc.State == HtlcStateSettled"))
						mustPass(o, f, "idb.UpdateInvoice", f.Calls(an.CalleeNamed("UpdateInvoice"), false), an.OkErrNil, []an.Site{s})
					default:
						o.FailAt(f.ID+"#new-settle-site", s.Where(), "%s creates a settle resolution; the site is not in the table", f.ID)
					}
				}
			}
			for id, n := range want {
				if got[id] != n {
					o.FailAt(id+"#settle-count", "", "%s has %d settle sites, the table has %d", id, got[id], n)
				}
			}
			for id := range got {
				if _, ok := want[id]; !ok {
					o.FailAt(id+"#unlisted-settle", "", "%s settles but is not in the table", id)
				}
			}

			// updateMpp
			f := p.Func(iv + "updateMpp")
			total := an.LocalNamed("totalAmt")
			// conditions every recorded HTLC of the MPP path must meet,
			// whether it is held (accept) or completes the set (settle)
			mppCommon := func(s an.Site) {
				guarded(o, f, s, an.Cmp(state, an.EQ, cst("ContractOpen"), "inv.State == ContractOpen"))
				guarded(o, f, s, an.Truth(an.CallTo("bytes.Equal", nil, an.LocalNamed("paymentAddr"), nil), true, "bytes.Equal(paymentAddr, inv.Terms.PaymentAddr[:])"))
				guarded(o, f, s, an.Cmp(total, an.NE, an.IntConst(0), "totalAmt != 0"))
				guarded(o, f, s, an.CmpX(total, an.GE, terms("Value"), "totalAmt >= inv.Terms.Value"))
				expiryOK(o, f, s)
			}
			for _, s := range f.Calls(an.CalleeIs(iv+"invoiceUpdateCtx.settleRes"), false) {
				mppCommon(s)
				guarded(o, f, s, an.Truth(an.LocalNamed("setComplete"), true, "setComplete"))
				guarded(o, f, s, an.Truth(an.FieldPath(inv, "HodlInvoice"), false, "!inv.HodlInvoice"))
			}
			accs := f.Calls(an.CalleeIs(iv+"invoiceUpdateCtx.acceptRes"), false)
			if need(o, f, "accept resolutions (partial set, hold invoice)", accs, 2) {
				for _, s := range accs {
					o.Site("accept %s", s.String())
					mppCommon(s)
				}
			}
			// the address compared is the invoice's
			for _, s := range f.Calls(an.CalleeIs("bytes.Equal"), false) {
				a := f.ArgCanon(s)
				o.Site("address check %v", a)
				if a[1] != "$p1.Terms.PaymentAddr[:]" {
					o.FailAt(f.ID+"#address", s.Where(), "the payment address is compared with %s", a[1])
				}
			}
			// paymentAddr sources
			for _, s := range f.Assigns(an.LocalNamed("paymentAddr"), false) {
				as := s.Node.(*ast.AssignStmt)
				c := f.Canon(as.Rhs[0])
				o.Site("paymentAddr <- %s", c)
				if !strings.Contains(c, "PaymentAddr()") && c != "$p0.pathID[:]" {
					o.FailAt(f.ID+"#address-source", s.Where(), "paymentAddr is taken from %s", c)
				}
			}
			// setComplete is `set sum >= declared total`
			scs := f.Assigns(an.LocalNamed("setComplete"), false)
			if need(o, f, "setComplete definition", scs, 1) {
				be, ok := scs[0].Node.(*ast.AssignStmt).Rhs[0].(*ast.BinaryExpr)
				if !ok || be.Op.String() != ">=" || !an.Match(f, an.LocalNamed("newSetTotal"), be.X) || !an.Match(f, total, be.Y) {
					o.FailAt(f.ID+"#set-complete", scs[0].Where(), "the set is declared complete by %s, expected newSetTotal >= totalAmt (the total every HTLC of the set declared)", an.Text(scs[0].Node))
				}
			}
			// set sum operands and per-HTLC total equality
			nAcc := 0
			for _, v := range f.Graph().V {
				as, ok := v.Node.(*ast.AssignStmt)
				if !ok || len(as.Lhs) != 1 || !an.Match(f, an.LocalNamed("newSetTotal"), as.Lhs[0]) {
					continue
				}
				s := an.Site{Fn: f, V: v, Node: as}
				c := f.Canon(as.Rhs[0])
				o.Site("newSetTotal %s %s", as.Tok, c)
				switch {
				case as.Tok.String() == "+=" && c == "$p0.amtPaid":
					nAcc++
				case as.Tok.String() == "+=" && strings.HasSuffix(c, ".Amt") && strings.HasPrefix(c, "$elem("):
					nAcc++
					hdr := enclosingLoopHeader(f, as)
					if hdr != "$p1.HTLCSet($p0.setID(), invoices.HtlcStateAccepted)" && !strings.Contains(hdr, "HTLCSet(") {
						o.FailAt(f.ID+"#set-sum-source", s.Where(), "the set sum accumulates over %s", hdr)
					}
					guarded(o, f, s, an.CmpX(total, an.EQ, an.FieldPath(nil, "MppTotalAmt"), "totalAmt == htlc.MppTotalAmt"))
				default:
					o.FailAt(f.ID+"#set-sum", s.Where(), "newSetTotal is changed by %s %s", as.Tok, c)
				}
			}
			if nAcc != 2 {
				o.FailAt(f.ID+"#set-sum-operands", f.Where(f.Body.Pos()), "the set sum has %d accumulation sites, expected the accepted set and the new HTLC", nAcc)
			}
			for _, s := range f.Assigns(an.LocalNamed("htlcSet"), false) {
				c := f.Canon(s.Node.(*ast.AssignStmt).Rhs[0])
				o.Site("htlcSet <- %s", c)
				if !strings.HasSuffix(c, ", invoices.HtlcStateAccepted)") {
					o.FailAt(f.ID+"#set-state", s.Where(), "the set is gathered as %s, expected the HTLCs in state Accepted", c)
				}
			}
			// the stored declared total is the compared one
			for _, cl := range p.CompositeLitsOf(p.LookupType("invoices", "HtlcAcceptDesc")) {
				if cl.Fn == nil || cl.Fn.ID != f.ID {
					continue
				}
				for _, el := range cl.Node.(*ast.CompositeLit).Elts {
					if kv, ok := el.(*ast.KeyValueExpr); ok && an.Text(kv.Key) == "MppTotalAmt" {
						o.Site("stored MppTotalAmt = %s", an.Text(kv.Value))
						if !an.Match(f, total, kv.Value) {
							o.FailAt(f.ID+"#stored-total", f.Where(kv.Pos()), "the HTLC is stored with declared total %s, not the one checked", an.Text(kv.Value))
						}
					}
				}
			}

			// updateLegacy
			g := p.Func(iv + "updateLegacy")
			legacyCommon := func(s an.Site) {
				guarded(o, g, s, an.Truth(an.CallNamed("IsAMP", inv), false, "!inv.IsAMP()"))
				guarded(o, g, s, an.Cmp(state, an.NE, cst("ContractCanceled"), "inv.State != ContractCanceled"))
				guarded(o, g, s, an.CmpX(an.FieldPath(ctxT, "amtPaid"), an.GE, terms("Value"), "ctx.amtPaid >= inv.Terms.Value"))
				guarded(o, g, s, an.AnyOf("keysend or no payment address required",
					an.Truth(an.CallTo(iv+"isValidKeySend", nil), true, ""),
					an.Truth(an.LocalNamed("paymentAddrRequired"), false, "")))
				expiryOK(o, g, s)
			}
			laccs := g.Calls(an.CalleeIs(iv+"invoiceUpdateCtx.acceptRes"), false)
			if need(o, g, "accept resolutions (duplicate, hold invoice)", laccs, 2) {
				for _, s := range laccs {
					o.Site("accept %s", s.String())
					legacyCommon(s)
				}
			}
			for _, s := range g.Calls(an.CalleeIs(iv+"invoiceUpdateCtx.settleRes"), false) {
				legacyCommon(s)
				guarded(o, g, s, an.Cmp(state, an.NE, cst("ContractAccepted"), "inv.State != ContractAccepted"))
				guarded(o, g, s, an.AnyOf("not a hold invoice, or already settled",
					an.Truth(an.FieldPath(inv, "HodlInvoice"), false, ""),
					an.Cmp(state, an.EQ, cst("ContractSettled"), "")))
				guarded(o, g, s, an.IsNil(an.LocalNamed("preimage"), false, "preimage != nil"))
			}
			// MPP in progress check precedes
			var mppFails []an.Site
			for _, s := range g.Calls(an.CalleeIs(iv+"invoiceUpdateCtx.failRes"), false) {
				if a := g.ArgCanon(s); a[0] == iv+"ResultMppInProgress" {
					mppFails = append(mppFails, s)
					guarded(o, g, s, an.Cmp(an.FieldPath(nil, "MppTotalAmt"), an.GT, an.IntConst(0), "htlc.MppTotalAmt > 0"))
					if hdr := enclosingLoopHeader(g, s.Node); hdr != "$p1.HTLCSet(nil, invoices.HtlcStateAccepted)" {
						o.FailAt(g.ID+"#mpp-in-progress-set", s.Where(), "the MPP-in-progress check runs over %s", hdr)
					}
				}
			}
			if need(o, g, "MPP-in-progress rejection", mppFails, 1) {
				// every settle passes the loop head
				var head *an.FlowVertex
				for _, v := range g.Graph().V {
					if rs, ok := v.Node.(*ast.RangeStmt); ok && rs.Pos() <= mppFails[0].Node.Pos() && mppFails[0].Node.End() <= rs.End() {
						head = v
					}
				}
				if head != nil {
					reach := g.Graph().Reach(g.Graph().Entry, nil, map[*an.FlowVertex]bool{head: true})
					for _, s := range g.Calls(an.CalleeIs(iv+"invoiceUpdateCtx.settleRes"), false) {
						if reach[s.V] {
							o.FailAt(g.ID+"#mpp-check-skipped", s.Where(), "a legacy settle can be reached without the MPP-in-progress check")
						}
					}
				}
			}

			// replay
			h := p.Func(iv + "resolveReplayedHtlc")
			hs := an.FieldPath(an.LocalNamed("htlc"), "State")
			for _, c := range []struct{ callee, st string }{
				{"failRes", "HtlcStateCanceled"}, {"acceptRes", "HtlcStateAccepted"}, {"settleRes", "HtlcStateSettled"},
			} {
				ss := h.Calls(an.CalleeIs(iv+"invoiceUpdateCtx."+c.callee), false)
				if need(o, h, c.callee, ss, 1) {
					for _, s := range ss {
						guarded(o, h, s, an.Cmp(hs, an.EQ, cst(c.st), "htlc.State == "+c.st))
						guarded(o, h, s, an.Truth(an.LocalNamed("replayedHTLC"), true, "the HTLC is already recorded"))
					}
				}
			}
			for _, s := range h.Calls(an.CalleeIs(iv+"invoiceUpdateCtx.settleRes"), false) {
				guarded(o, h, s, an.AnyOf("the stored preimage matches the HTLC's hash",
					an.Truth(an.CallNamed("Matches", nil, an.FieldPath(ctxT, "hash")), true, ""),
					an.Truth(an.CallNamed("Matches", nil, an.FieldPath(an.FieldPath(nil, "AMP"), "Hash")), true, "")))
				guarded(o, h, s, an.AnyOf("AMP hash equals the HTLC's hash or invoice-level preimage",
					an.CmpX(an.FieldPath(an.FieldPath(nil, "AMP"), "Hash"), an.EQ, an.FieldPath(ctxT, "hash"), ""),
					an.Truth(an.CallNamed("IsAMP", inv), false, "")))
			}
		})

	r.Obl("amp-preimages-only-when-all-children-match", "GUARD",
		"reconstructAMPPreimages returns preimages only below `ctx.hash == children[0].Hash` and, for every other child, `htlc.AMP.Hash == child.Hash`; the new HTLC's preimage is children[0].Preimage; updateMpp uses the result only when no fail resolution came back",
		"a preimage derived from shares that do not reproduce an HTLC's payment hash cannot claim that HTLC; settling the set anyway loses the others", 4,
		func(o *an.Obl) {
			f := p.Func(iv + "reconstructAMPPreimages")
			for _, s := range f.Returns() {
				rs := s.Node.(*ast.ReturnStmt)
				if an.IsNilIdent(f.Info(), rs.Results[0]) {
					continue
				}
				guarded(o, f, s, an.CmpX(an.FieldPath(ctxT, "hash"), an.EQ, canonTerm(`^amp\.ReconstructChildren\(.*\)\[0\]\.Hash$`), "ctx.hash == children[0].Hash"))
			}
			// every other child compared in a loop that fails on mismatch
			n := 0
			for _, s := range f.Calls(an.CalleeIs(iv+"invoiceUpdateCtx.failRes"), false) {
				if enclosingLoopHeader(f, s.Node) != "" {
					n++
					guarded(o, f, s, an.CmpX(an.FieldPath(an.FieldPath(nil, "AMP"), "Hash"), an.NE, an.FieldPath(nil, "Hash"), "htlc.AMP.Hash != child.Hash"))
				}
			}
			if n != 1 {
				o.FailAt(f.ID+"#child-check", f.Where(f.Body.Pos()), "expected one per-child hash check, found %d", n)
			}
			// which preimage goes to which HTLC: the new HTLC (child 0, whose
			// hash was compared with ctx.hash) and, for the others, the
			// child at the position whose hash was compared with that HTLC
			nPre := 0
			var cmpKey string
			for _, v := range f.Graph().V {
				switch n := v.Node.(type) {
				case *ast.AssignStmt:
					if len(n.Lhs) != 1 || len(n.Rhs) != 1 {
						continue
					}
					ix, ok := n.Lhs[0].(*ast.IndexExpr)
					if !ok || an.Text(ix.X) != "htlcPreimages" {
						continue
					}
					nPre++
					k, val := f.Canon(ix.Index), f.Canon(n.Rhs[0])
					o.Site("htlcPreimages[%s] = %s", k, val)
					switch {
					case k == "$p0.circuitKey":
						if !reMatch(`^amp\.ReconstructChildren\(.*\)\[0\]\.Preimage$`, val) {
							o.FailAt(f.ID+"#new-htlc-preimage", f.Where(n.Pos()), "the new HTLC receives %s, expected children[0].Preimage (the child whose hash was compared with ctx.hash)", val)
						}
					case reMatch(`\[\$key\(amp\.ReconstructChildren\(.*\)\[1:\]\)\]$`, k):
						if !reMatch(`^\$elem\(amp\.ReconstructChildren\(.*\)\[1:\]\)\.Preimage$`, val) {
							o.FailAt(f.ID+"#set-htlc-preimage", f.Where(n.Pos()), "the HTLC at position idx receives %s, expected the preimage of the child at that position", val)
						}
						if cmpKey != "" && cmpKey != k {
							o.FailAt(f.ID+"#set-htlc-key", f.Where(n.Pos()), "preimages are stored under %s but hashes were compared for %s", k, cmpKey)
						}
					default:
						o.FailAt(f.ID+"#preimage-key", f.Where(n.Pos()), "a preimage is stored under %s", k)
					}
					if id, ok := ast.Unparen(ix.Index).(*ast.Ident); ok && cmpKey == "" {
						_ = id
					}
				}
			}
			// the compared HTLC of the loop: htlcSet[indexToCircuitKey[idx]]
			for _, v := range f.Graph().V {
				as, ok := v.Node.(*ast.AssignStmt)
				if !ok || len(as.Lhs) != 1 || an.Text(as.Lhs[0]) != "htlc" {
					continue
				}
				c := f.Canon(as.Rhs[0])
				o.Site("compared HTLC: %s", c)
				if !reMatch(`^\$p1\[.*\[\$key\(amp\.ReconstructChildren\(.*\)\[1:\]\)\]\]$`, c) {
					o.FailAt(f.ID+"#compared-htlc", f.Where(as.Pos()), "the HTLC whose hash is compared is %s, expected htlcSet[indexToCircuitKey[idx]] for the child's position idx", c)
				}
			}
			if nPre != 2 {
				o.FailAt(f.ID+"#preimage-sites", f.Where(f.Body.Pos()), "expected 2 preimage assignments, found %d", nPre)
			}
			g := p.Func(iv + "updateMpp")
			for _, s := range g.Assigns(an.LocalNamed("htlcPreimage"), false) {
				as := s.Node.(*ast.AssignStmt)
				c := an.Text(as.Rhs[0])
				o.Site("htlcPreimage <- %s", c)
				switch c {
				case "htlcPreimages[ctx.circuitKey]":
					guarded(o, g, s, an.IsNil(an.LocalNamed("failRes"), true, "failRes == nil"))
				case "*inv.Terms.PaymentPreimage":
					guarded(o, g, s, an.IsNil(an.FieldPath(ctxT, "amp"), true, "ctx.amp == nil"))
				default:
					o.FailAt(g.ID+"#preimage-source", s.Where(), "the released preimage is %s", c)
				}
			}
		})

	r.Obl("hold-invoice-settled-only-from-accepted", "GUARD",
		"SettleHodlInvoice's update callback produces the settle descriptor only when the invoice is neither Open, Canceled nor Settled; settleHodlInvoice applies it only to hold invoices with a preimage that getUpdatedInvoiceState verified against the hash, and counts as paid exactly the HTLCs it moved to Settled",
		"settling an open hold invoice releases the preimage for a partial set", 8,
		func(o *an.Obl) {
			f := p.Func(iv + "InvoiceRegistry.SettleHodlInvoice")
			n := 0
			for _, lf := range f.Lits {
				for _, s := range lf.Returns() {
					rs := s.Node.(*ast.ReturnStmt)
					if len(rs.Results) != 2 || an.IsNilIdent(lf.Info(), rs.Results[0]) {
						continue
					}
					n++
					for _, st := range []string{"ContractOpen", "ContractCanceled", "ContractSettled"} {
						guarded(o, lf, s, an.Cmp(an.FieldPath(an.Param(0), "State"), an.NE, cst(st), "invoice.State != "+st))
					}
				}
			}
			if n != 1 {
				o.FailAt(f.ID+"#descriptor", f.Where(f.Body.Pos()), "expected one settle descriptor return, found %d", n)
			}
			g := p.Func(iv + "settleHodlInvoice")
			us := g.Calls(an.CalleeNamed("UpdateInvoiceState"), false)
			if need(o, g, "UpdateInvoiceState", us, 1) {
				guarded(o, g, us[0], an.Truth(an.FieldPath(an.Param(0), "HodlInvoice"), true, "invoice.HodlInvoice"))
				guarded(o, g, us[0], an.IsNil(an.FieldPath(an.Param(3), "Preimage"), false, "update.Preimage != nil"))
				mustPass(o, g, "getUpdatedInvoiceState", g.Calls(an.CalleeIs(iv+"getUpdatedInvoiceState"), false), an.OkErrNil, us)
			}
			for _, v := range g.Graph().V {
				as, ok := v.Node.(*ast.AssignStmt)
				if !ok || len(as.Lhs) != 1 || an.Text(as.Lhs[0]) != "amtPaid" || as.Tok.String() != "+=" {
					continue
				}
				s := an.Site{Fn: g, V: v, Node: as}
				o.Site("%s", s.String())
				guarded(o, g, s, an.Truth(an.LocalNamed("settled"), true, "the HTLC was moved to Settled"))
				mustPass(o, g, "resolveHtlc", g.Calls(an.CalleeIs(iv+"resolveHtlc"), false), an.OkErrNil, []an.Site{s})
				if c := g.Canon(as.Rhs[0]); !strings.HasSuffix(c, ".Amt") {
					o.FailAt(g.ID+"#amt", s.Where(), "amount paid accumulates %s", c)
				}
			}
			// the preimage check inside getUpdatedInvoiceState
			gs := p.Func(iv + "getUpdatedInvoiceState")
			found := false
			for _, s := range gs.Returns() {
				if an.Text(s.Node.(*ast.ReturnStmt).Results[1]) == "ErrInvoicePreimageMismatch" {
					found = true
					guarded(o, gs, s, an.CmpX(an.CallNamed("Hash", an.FieldPath(an.Param(2), "Preimage")), an.NE, canonTerm(`^\*\$p1$|^\$p1$`), "update.Preimage.Hash() != *hash"))
				}
			}
			if !found {
				o.FailAt(gs.ID+"#preimage-check", gs.Where(gs.Body.Pos()), "getUpdatedInvoiceState no longer rejects a preimage that does not hash to the invoice hash")
			}
		})

	r.Obl("states-only-move-forward", "TABLE",
		"getUpdatedInvoiceState returns a new state only from Open or Accepted, never Open as target, never Accepted from Accepted; getUpdatedHtlcState yields Canceled only below invoice state Canceled and not for a Settled HTLC, and Settled only for an Accepted HTLC; canCancelSingleHtlc permits only an Accepted HTLC of an Open invoice; invoice.State and htlc.State are written only by the appliers after the updater accepted the change",
		"a backward or sideways transition un-settles a paid invoice or settles a canceled HTLC (both settled and canceled)", 14,
		func(o *an.Obl) {
			f := p.Func(iv + "getUpdatedInvoiceState")
			ist := an.FieldPath(an.Param(0), "State")
			ns := an.FieldPath(an.Param(2), "NewState")
			k := 0
			for _, s := range f.Returns() {
				rs := s.Node.(*ast.ReturnStmt)
				if an.IsNilIdent(f.Info(), rs.Results[0]) {
					continue
				}
				k++
				guarded(o, f, s, an.AnyOf("invoice.State is Open or Accepted", an.Cmp(ist, an.EQ, cst("ContractOpen"), ""), an.Cmp(ist, an.EQ, cst("ContractAccepted"), "")))
				guarded(o, f, s, an.Cmp(ns, an.NE, cst("ContractOpen"), "update.NewState != ContractOpen"))
				guarded(o, f, s, an.AnyOf("not Accepted -> Accepted", an.Cmp(ist, an.EQ, cst("ContractOpen"), ""), an.Cmp(ns, an.NE, cst("ContractAccepted"), "")))
				if c := f.Canon(rs.Results[0]); c != "&$p2.NewState" {
					o.FailAt(f.ID+"#returned-state", s.Where(), "getUpdatedInvoiceState returns %s, expected the requested state", c)
				}
			}
			if k != 3 {
				o.FailAt(f.ID+"#returns", f.Where(f.Body.Pos()), "expected 3 state-returning exits, found %d", k)
			}
			g := p.Func(iv + "getUpdatedHtlcState")
			for _, s := range g.Returns() {
				rs := s.Node.(*ast.ReturnStmt)
				if len(rs.Results) != 3 {
					continue
				}
				if an.Text(rs.Results[1]) == "HtlcStateCanceled" {
					guarded(o, g, s, an.Cmp(an.Param(1), an.EQ, cst("ContractCanceled"), "invoiceState == ContractCanceled"))
					guarded(o, g, s, an.Cmp(an.FieldPath(an.Param(0), "State"), an.NE, cst("HtlcStateSettled"), "htlc.State != HtlcStateSettled"))
				}
			}
			nSet := 0
			for _, lf := range g.Lits {
				for _, s := range lf.Assigns(an.LocalNamed("newState"), false) {
					as := s.Node.(*ast.AssignStmt)
					if an.Text(as.Rhs[0]) == "HtlcStateSettled" {
						nSet++
						guarded(o, lf, s, an.Truth(an.LocalNamed("settled"), true, "settled"))
						guarded(o, lf, s, an.Cmp(an.FieldPath(nil, "State"), an.EQ, cst("HtlcStateAccepted"), "htlc.State == HtlcStateAccepted"))
					}
				}
				for _, s := range lf.Assigns(an.LocalNamed("settled"), false) {
					as := s.Node.(*ast.AssignStmt)
					if an.Text(as.Rhs[0]) == "true" {
						guarded(o, lf, s, an.AnyOf("non-AMP, or the AMP preimage matches its hash",
							an.IsNil(an.LocalNamed("setID"), true, ""),
							an.Truth(an.CallNamed("Matches", nil), true, "")))
					}
				}
			}
			if nSet != 1 {
				o.FailAt(g.ID+"#settle-site", g.Where(g.Body.Pos()), "expected one place that yields HtlcStateSettled, found %d", nSet)
			}
			// the "changed" verdict of trySettle: only when persisting and settled
			nCh := 0
			for _, lf := range g.Lits {
				for _, s := range lf.Returns() {
					rs := s.Node.(*ast.ReturnStmt)
					if len(rs.Results) != 3 || an.Text(rs.Results[1]) != "newState" {
						continue
					}
					nCh++
					c := lf.Canon(rs.Results[0])
					o.Site("trySettle changed = %s", c)
					be, ok := ast.Unparen(rs.Results[0]).(*ast.BinaryExpr)
					if !ok || be.Op.String() != "&&" || an.Text(be.X) != "persist" || an.Text(be.Y) != "settled" {
						o.FailAt(g.ID+"#changed-verdict", s.Where(), "trySettle reports a change when %s, expected persist && settled", an.Text(rs.Results[0]))
					}
				}
			}
			if nCh != 1 {
				o.FailAt(g.ID+"#changed-site", g.Where(g.Body.Pos()), "expected one return of the new state in trySettle, found %d", nCh)
			}
			// trySettle(true) only under ContractSettled
			for _, s := range g.AllCalls(false) {
				c := s.Node.(*ast.CallExpr)
				if id, ok := c.Fun.(*ast.Ident); ok && id.Name == "trySettle" && an.Text(c.Args[0]) == "true" {
					guarded(o, g, s, an.Cmp(an.Param(1), an.EQ, cst("ContractSettled"), "invoiceState == ContractSettled"))
				}
			}
			cc := p.Func(iv + "canCancelSingleHtlc")
			for _, s := range cc.Returns() {
				if an.IsNilIdent(cc.Info(), s.Node.(*ast.ReturnStmt).Results[0]) {
					guarded(o, cc, s, an.Cmp(an.Param(1), an.EQ, cst("ContractOpen"), "invoiceState == ContractOpen"))
					guarded(o, cc, s, an.Cmp(an.FieldPath(an.Param(0), "State"), an.EQ, cst("HtlcStateAccepted"), "htlc.State == HtlcStateAccepted"))
				}
			}
			// writers of Invoice.State / InvoiceHTLC.State in the package
			allowInv := map[string]string{iv + "addHTLCs": "UpdateInvoiceState", iv + "settleHodlInvoice": "UpdateInvoiceState", iv + "cancelInvoice": "UpdateInvoiceState"}
			for _, fn := range p.Funcs(false, "invoices") {
				for _, s := range fn.Assigns(an.Field(iv+"Invoice", "State", nil), false) {
					o.Site("invoice state writer %s", s.String())
					need_, ok := allowInv[fn.ID]
					if !ok {
						if strings.Contains(fn.ID, "sql") || strings.Contains(fn.ID, "SQL") || strings.Contains(fn.ID, "Migrat") || strings.Contains(fn.ID, "unmarshal") {
							continue
						}
						o.FailAt(fn.ID+"#writes-invoice-state", s.Where(), "%s writes Invoice.State outside the appliers", fn.ID)
						continue
					}
					mustPass(o, fn, need_, fn.Calls(an.CalleeNamed(need_), false), an.OkErrNil, []an.Site{s})
				}
				for _, s := range fn.Assigns(an.Field(iv+"InvoiceHTLC", "State", nil), false) {
					o.Site("htlc state writer %s", s.String())
					switch {
					case fn.ID == iv+"resolveHtlc":
						mustPass(o, fn, "updater.ResolveHtlc", fn.Calls(an.CalleeNamed("ResolveHtlc"), false), an.OkErrNil, []an.Site{s})
					case strings.Contains(fn.ID, "sql") || strings.Contains(fn.ID, "SQL") || strings.Contains(fn.ID, "Migrat") || strings.Contains(fn.ID, "unmarshal"):
					default:
						o.FailAt(fn.ID+"#writes-htlc-state", s.Where(), "%s writes InvoiceHTLC.State outside resolveHtlc", fn.ID)
					}
				}
			}
			// resolveHtlc callers pass a state derived from getUpdatedHtlcState or the Canceled constant below canCancelSingleHtlc
			for _, fn := range p.Funcs(false, "invoices") {
				for _, s := range fn.Calls(an.CalleeIs(iv+"resolveHtlc"), false) {
					a := fn.ArgCanon(s)
					o.Site("%s state=%s", s.String(), a[2])
					// the state written is the one the decision was made for
					type row struct{ state, ctxState, changed string }
					tab := map[string]row{
						iv + "cancelHTLCs":       {"invoices.HtlcStateCanceled", "", ""},
						iv + "addHTLCs":          {`^invoices\.getUpdatedHtlcState\(.*\)#1$`, "", "htlcStateChanged"},
						iv + "settleHodlInvoice": {"invoices.HtlcStateSettled", "invoices.ContractSettled", "settled"},
						iv + "cancelInvoice":     {"invoices.HtlcStateCanceled", "invoices.ContractCanceled", "canceled"},
					}
					if rw, ok := tab[fn.ID]; ok {
						if a[2] != rw.state && !(strings.HasPrefix(rw.state, "^") && reMatch(rw.state, a[2])) {
							o.FailAt(fn.ID+"#resolveHtlc-state", s.Where(), "%s records HTLC state %s, expected %s", fn.ID, a[2], rw.state)
						}
						if rw.changed != "" {
							guarded(o, fn, s, an.Truth(an.LocalNamed(rw.changed), true, rw.changed+" (getUpdatedHtlcState reported a change)"))
						}
						for _, gs := range fn.Calls(an.CalleeIs(iv+"getUpdatedHtlcState"), false) {
							ga := fn.ArgCanon(gs)
							o.Site("%s decides for htlc=%s invoice state=%s", fn.ID, ga[0], ga[1])
							if rw.ctxState != "" && ga[1] != rw.ctxState {
								o.FailAt(fn.ID+"#decision-state", gs.Where(), "%s asks getUpdatedHtlcState about invoice state %s, expected %s", fn.ID, ga[1], rw.ctxState)
							}
							if ga[0] != a[1] {
								o.FailAt(fn.ID+"#decision-htlc", gs.Where(), "%s decides for %s but resolves %s", fn.ID, ga[0], a[1])
							}
						}
					}
					switch fn.ID {
					case iv + "cancelHTLCs":
						mustPass(o, fn, "canCancelSingleHtlc", fn.Calls(an.CalleeIs(iv+"canCancelSingleHtlc"), false), an.OkErrNil, []an.Site{s})
					case iv + "addHTLCs", iv + "settleHodlInvoice", iv + "cancelInvoice":
						mustPass(o, fn, "getUpdatedHtlcState", fn.Calls(an.CalleeIs(iv+"getUpdatedHtlcState"), false), an.OkErrNil, []an.Site{s})
					default:
						o.FailAt(fn.ID+"#resolveHtlc-caller", s.Where(), "%s calls resolveHtlc", fn.ID)
					}
				}
			}
		})

	r.Obl("amount-paid-from-htlc-amounts", "WHO",
		"Invoice.AmtPaid is written only by updateInvoiceAmtPaid after the updater accepted it (loaders and copies aside); addHTLCs accumulates only HTLC amounts, for a non-AMP invoice only of Accepted/Settled HTLCs once the invoice left Open",
		"an amount paid that is not the sum of the settled HTLCs misreports what the invoice received", 5,
		func(o *an.Obl) {
			for _, fn := range p.Funcs(false, "invoices") {
				for _, s := range fn.Assigns(an.Field(iv+"Invoice", "AmtPaid", nil), false) {
					o.Site("AmtPaid writer %s", s.String())
					if fn.ID != iv+"updateInvoiceAmtPaid" {
						o.FailAt(fn.ID+"#writes-amtpaid", s.Where(), "%s writes Invoice.AmtPaid", fn.ID)
						continue
					}
					mustPass(o, fn, "updater.UpdateInvoiceAmtPaid", fn.Calls(an.CalleeNamed("UpdateInvoiceAmtPaid"), false), an.OkErrNil, []an.Site{s})
				}
			}
			f := p.Func(iv + "addHTLCs")
			n := 0
			for _, v := range f.Graph().V {
				as, ok := v.Node.(*ast.AssignStmt)
				if !ok || len(as.Lhs) != 1 || an.Text(as.Lhs[0]) != "amtPaid" || as.Tok.String() != "+=" {
					continue
				}
				n++
				s := an.Site{Fn: f, V: v, Node: as}
				c := f.Canon(as.Rhs[0])
				o.Site("%s (%s)", s.String(), c)
				switch {
				case c == "$p0.AmtPaid":
					guarded(o, f, s, an.Truth(an.LocalNamed("invoiceIsAMP"), true, "AMP invoice"))
				case strings.HasSuffix(c, ".Amt"):
					guarded(o, f, s, an.Truth(an.LocalNamed("invoiceStateReady"), true, "HTLC accepted or settled"))
					isAMP := an.Truth(an.LocalNamed("invoiceIsAMP"), true, "AMP invoice")
					istate := an.FieldPath(an.Param(0), "State")
					if amp, _ := f.Guarded(s, isAMP); amp {
						guarded(o, f, s, an.Cmp(istate, an.EQ, cst("ContractOpen"), "invoice.State == ContractOpen (AMP invoices stay open)"))
						guarded(o, f, s, an.Truth(an.LocalNamed("ok"), true, "the HTLC is one of update.AddHtlcs"))
					} else {
						guarded(o, f, s, an.Truth(an.LocalNamed("invoiceIsAMP"), false, "not an AMP invoice"))
						guarded(o, f, s, an.Cmp(istate, an.NE, cst("ContractOpen"), "invoice.State != ContractOpen"))
					}
					onlyGuards(o, f, s, []string{`^invoiceStateReady$`, `^!?\(?invoiceIsAMP\)?$`, `^invoice\.State [!=]= ContractOpen$`, `^ok$`, `^!\(err != nil\)$`}, "amount accumulation")
				default:
					o.FailAt(f.ID+"#amt-operand", s.Where(), "amount paid accumulates %s", c)
				}
			}
			if n != 3 {
				o.FailAt(f.ID+"#amt-sites", f.Where(f.Body.Pos()), "expected 3 accumulation sites in addHTLCs, found %d", n)
			}
			// what "ready" means: the HTLC is Accepted or Settled
			rd := f.Assigns(an.LocalNamed("invoiceStateReady"), false)
			if need(o, f, "definition of invoiceStateReady", rd, 1) {
				for _, d := range rd {
					c := f.Canon(d.Node.(*ast.AssignStmt).Rhs[0])
					o.Site("invoiceStateReady := %s", c)
					if c != "(($elem($p0.Htlcs).State == invoices.HtlcStateAccepted) || ($elem($p0.Htlcs).State == invoices.HtlcStateSettled))" {
						o.FailAt(f.ID+"#ready-definition", d.Where(), "an HTLC counts towards the amount paid when %s, expected its state to be Accepted or Settled", c)
					}
				}
			}
		})

	r.Obl("registry-subscription-locks", "LOCK",
		"the registry's hodl subscription maps are accessed only under hodlSubscriptionsMux and its notification client maps only under notificationClientMux",
		"concurrent notifications from several links race on the subscriber maps: a resolution is delivered to a stale set or lost", 14,
		func(o *an.Obl) {
			p.CheckLocks(o, an.LockSpec{Pkg: "invoices", Type: "InvoiceRegistry", Mutex: "hodlSubscriptionsMux",
				Fields: []string{"hodlSubscriptions", "hodlReverseSubscriptions"}, Constructor: iv + "NewRegistry"})
			p.CheckLocks(o, an.LockSpec{Pkg: "invoices", Type: "InvoiceRegistry", Mutex: "notificationClientMux",
				Fields: []string{"notificationClients", "singleNotificationClients"}, Constructor: iv + "NewRegistry"})
		})

	r.Obl("stores-share-the-appliers", "MIRROR",
		"both invoice stores implement UpdateInvoice by calling the shared invoices.UpdateInvoice once inside their transaction with the caller's callback; every update type of the dispatcher has its applier",
		"a store with its own transition logic would accept updates the other rejects: the same event sequence gives different verdicts per backend", 6,
		func(o *an.Obl) {
			for _, id := range []string{"channeldb.DB.UpdateInvoice", iv + "SQLStore.UpdateInvoice"} {
				f := p.Func(id)
				n := 0
				for _, lf := range append([]*an.Func{f}, f.Lits...) {
					for _, s := range lf.Calls(an.CalleeIs(iv+"UpdateInvoice"), false) {
						n++
						a := lf.ArgCanon(s)
						o.Site("%s callback=%s", s.String(), a[3])
						if !strings.HasSuffix(a[3], "p3") {
							o.FailAt(id+"#callback", s.Where(), "%s passes %s as the update callback, expected its own callback parameter", id, a[3])
						}
					}
				}
				if n != 1 {
					o.FailAt(id+"#shared-applier", f.Where(f.Body.Pos()), "%s calls the shared UpdateInvoice %d times, expected once", id, n)
				}
			}
			u := p.Func(iv + "UpdateInvoice")
			want := map[string]string{"CancelHTLCsUpdate": "cancelHTLCs", "AddHTLCsUpdate": "addHTLCs", "SettleHodlInvoiceUpdate": "settleHodlInvoice", "CancelInvoiceUpdate": "cancelInvoice"}
			for k, fn := range want {
				cs := u.Calls(an.CalleeIs(iv+fn), false)
				if need(o, u, fn, cs, 1) {
					guarded(o, u, cs[0], an.Cmp(an.Any(), an.EQ, cst(k), "update.UpdateType == "+k))
				}
			}
			fin := u.Calls(an.CalleeNamed("Finalize"), false)
			if need(o, u, "updater.Finalize", fin, 1) {
				for _, s := range u.StrictSuccessReturnsOrNilPtr() {
					_ = s
				}
			}
			_ = types.Typ
		})
}
