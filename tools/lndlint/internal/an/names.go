package an

import (
	"bytes"
	"compress/gzip"
	"encoding/json"
	"go/ast"
	"go/token"
	"go/types"
	"io"
	"sort"
)

// Rename tolerance.
//
// Many rule instances name a local variable or a parameter of a decision
// function ("amountToSend", "fundingPoint"): the name is how the reviewed
// tree spells the role of the value. A behaviour-preserving rename of such
// a variable must not raise an alarm. Instead of teaching every rule about
// renames, the loader normalises them away: the names of the variables of
// every function of the reviewed tree are recorded in a committed baseline
// (names_baseline.json.gz, written by `lndlint names -write`), and when a
// function of the analysed tree declares a variable under a name the
// baseline does not know at the place where the baseline has a variable of
// the same type under a name the function no longer uses, the identifiers
// of that variable are renamed back (in the syntax tree only) before any
// rule looks at the function.
//
// The normalisation is a consistent renaming of variables of one function,
// so it cannot change what the function computes and therefore cannot hide
// a violation; a wrong alignment can at worst make a name-based rule fail
// to find its anchor (which is reported, never passed over). It never
// applies when the old name is still in use in the function, when the new
// name was already known to the baseline, or when the alignment is
// ambiguous.

// NameEntry is one declared variable of a function declaration (parameters,
// results, then locals incl. those of nested literals, in source order).
type NameEntry struct {
	N string `json:"n"`
	T string `json:"t"`
	K string `json:"k"` // p(aram) r(esult) l(ocal)
}

var namesBaseline map[string][]NameEntry

// NamesApplied counts renamed variables per function (reported in evidence).
var NamesApplied = map[string][]string{}

// SetNamesBaseline installs the gzip'ed JSON baseline.
func SetNamesBaseline(gz []byte) error {
	if len(gz) == 0 {
		return nil
	}
	zr, err := gzip.NewReader(bytes.NewReader(gz))
	if err != nil {
		return err
	}
	b, err := io.ReadAll(zr)
	if err != nil {
		return err
	}
	m := map[string][]NameEntry{}
	if err := json.Unmarshal(b, &m); err != nil {
		return err
	}
	namesBaseline = m
	return nil
}

// DisableNamesBaseline switches normalisation off (used by the writer).
func DisableNamesBaseline() { namesBaseline = nil }

type declVar struct {
	obj *types.Var
	// a type-switch variable has one implicit object per clause and a
	// defining identifier that maps to none of them
	more  []*types.Var
	extra *ast.Ident
	e     NameEntry
	pos   token.Pos
}

// declVars lists the variables declared in a function declaration.
func declVars(info *types.Info, fd *ast.FuncDecl) []declVar {
	var out []declVar
	seen := map[*types.Var]bool{}
	add := func(id *ast.Ident, kind string) {
		v, _ := info.Defs[id].(*types.Var)
		if v == nil || v.IsField() || seen[v] || id.Name == "_" {
			return
		}
		seen[v] = true
		out = append(out, declVar{obj: v, e: NameEntry{N: id.Name, T: types.TypeString(v.Type(), func(p *types.Package) string { return Short(p.Path()) }), K: kind}, pos: id.Pos()})
	}
	fields := func(fl *ast.FieldList, kind string) {
		if fl == nil {
			return
		}
		for _, f := range fl.List {
			for _, n := range f.Names {
				add(n, kind)
			}
		}
	}
	fields(fd.Recv, "p")
	fields(fd.Type.Params, "p")
	fields(fd.Type.Results, "r")
	var locals []*ast.Ident
	tsw := map[*ast.Ident]*ast.TypeSwitchStmt{}
	ast.Inspect(fd.Body, func(n ast.Node) bool {
		switch x := n.(type) {
		case *ast.Ident:
			if v, _ := info.Defs[x].(*types.Var); v != nil && !v.IsField() {
				locals = append(locals, x)
			}
		case *ast.TypeSwitchStmt:
			if as, ok := x.Assign.(*ast.AssignStmt); ok && len(as.Lhs) == 1 {
				if id, ok := as.Lhs[0].(*ast.Ident); ok && id.Name != "_" {
					tsw[id] = x
					locals = append(locals, id)
				}
			}
		}
		return true
	})
	sort.Slice(locals, func(i, j int) bool { return locals[i].Pos() < locals[j].Pos() })
	for _, id := range locals {
		if sw := tsw[id]; sw != nil {
			d := declVar{extra: id, e: NameEntry{N: id.Name, T: "(type switch)", K: "l"}, pos: id.Pos()}
			for _, cc := range sw.Body.List {
				if v, _ := info.Implicits[cc].(*types.Var); v != nil {
					d.more = append(d.more, v)
				}
			}
			out = append(out, d)
			continue
		}
		add(id, "l")
	}
	return out
}

// NamesOf returns the baseline entries of a declaration (for the writer).
func NamesOf(info *types.Info, fd *ast.FuncDecl) []NameEntry {
	var out []NameEntry
	for _, d := range declVars(info, fd) {
		out = append(out, d.e)
	}
	return out
}

// normalizeNames renames the variables of fd back to their baseline names
// where a pure rename is detected. id is the FuncID of the declaration.
func normalizeNames(id string, info *types.Info, fd *ast.FuncDecl) {
	if namesBaseline == nil {
		return
	}
	base, ok := namesBaseline[id]
	if !ok || len(base) == 0 {
		return
	}
	cur := declVars(info, fd)
	if len(cur) == 0 {
		return
	}
	inBase, inCur := map[string]bool{}, map[string]bool{}
	for _, b := range base {
		inBase[b.N] = true
	}
	same := len(base) == len(cur)
	for i, c := range cur {
		inCur[c.e.N] = true
		if same && base[i].N != c.e.N {
			same = false
		}
	}
	if same {
		return
	}
	missing, fresh := false, false
	for _, b := range base {
		if !inCur[b.N] {
			missing = true
		}
	}
	for _, c := range cur {
		if !inBase[c.e.N] {
			fresh = true
		}
	}
	if !missing || !fresh {
		return
	}
	// order-preserving alignment maximising: same name and type (3), a
	// vanished name against an unknown one of the same type and kind (1)
	n, m := len(base), len(cur)
	score := func(i, j int) int {
		b, c := base[i], cur[j].e
		if b.T != c.T || b.K != c.K {
			if b.N == c.N {
				return 1 // same name, type changed: keep them together
			}
			return -1
		}
		if b.N == c.N {
			return 3
		}
		if !inCur[b.N] && !inBase[c.N] {
			return 1
		}
		return -1
	}
	dp := make([][]int, n+1)
	for i := range dp {
		dp[i] = make([]int, m+1)
	}
	for i := n - 1; i >= 0; i-- {
		for j := m - 1; j >= 0; j-- {
			best := dp[i+1][j]
			if dp[i][j+1] > best {
				best = dp[i][j+1]
			}
			if s := score(i, j); s > 0 && dp[i+1][j+1]+s > best {
				best = dp[i+1][j+1] + s
			}
			dp[i][j] = best
		}
	}
	ren := map[string]string{} // fresh name -> baseline name
	amb := map[string]bool{}
	taken := map[string]string{}
	for i, j := 0, 0; i < n && j < m; {
		s := score(i, j)
		switch {
		case s > 0 && dp[i][j] == dp[i+1][j+1]+s:
			b, c := base[i], cur[j].e
			if b.N != c.N && b.T == c.T && b.K == c.K {
				if old, ok := ren[c.N]; ok && old != b.N {
					amb[c.N] = true
				}
				if old, ok := taken[b.N]; ok && old != c.N {
					amb[c.N], amb[old] = true, true
				}
				ren[c.N] = b.N
				taken[b.N] = c.N
			}
			i++
			j++
		case dp[i][j] == dp[i+1][j]:
			i++
		default:
			j++
		}
	}
	if len(ren) == 0 {
		return
	}
	// every declaration of a fresh name must be covered by the same rename:
	// a fresh name with a declaration left unaligned is only renamed when
	// all its aligned declarations agree (checked above through amb)
	byObj := map[*types.Var]string{}
	byIdent := map[*ast.Ident]string{}
	for _, c := range cur {
		if to, ok := ren[c.e.N]; ok && !amb[c.e.N] {
			if c.obj != nil {
				byObj[c.obj] = to
			}
			for _, v := range c.more {
				byObj[v] = to
			}
			if c.extra != nil {
				byIdent[c.extra] = to
			}
		}
	}
	if len(byObj) == 0 {
		return
	}
	var applied []string
	done := map[string]bool{}
	ast.Inspect(fd, func(x ast.Node) bool {
		idn, ok := x.(*ast.Ident)
		if !ok {
			return true
		}
		if to, ok := byIdent[idn]; ok {
			idn.Name = to
			return true
		}
		var v *types.Var
		if d, _ := info.Defs[idn].(*types.Var); d != nil {
			v = d
		} else if u, _ := info.Uses[idn].(*types.Var); u != nil {
			v = u
		}
		if v == nil {
			return true
		}
		if to, ok := byObj[v]; ok {
			if !done[idn.Name+">"+to] {
				done[idn.Name+">"+to] = true
				applied = append(applied, idn.Name+"→"+to)
			}
			idn.Name = to
		}
		return true
	})
	if len(applied) > 0 {
		sort.Strings(applied)
		NamesApplied[id] = applied
	}
}

// VarName is the (normalised) name under which a variable is declared in
// the analysed syntax; rules use it instead of types.Var.Name, which keeps
// the spelling of the source.
func (f *Func) VarName(v *types.Var) string {
	if v == nil {
		return ""
	}
	root := f.Root()
	var node ast.Node = root.Decl
	if root.Decl == nil {
		node = root.Body
	}
	name := v.Name()
	if node == nil {
		return name
	}
	info := f.Info()
	ast.Inspect(node, func(x ast.Node) bool {
		if id, ok := x.(*ast.Ident); ok && info.Defs[id] == types.Object(v) {
			name = id.Name
			return false
		}
		return true
	})
	return name
}
