package an

import (
	"go/ast"
	"go/types"
	"sort"

	"lndlint/internal/flow"
)

// LockSpec describes a struct whose listed fields are guarded by a mutex
// field of the same struct.
type LockSpec struct {
	Pkg, Type string
	Mutex     string
	Fields    []string
	// ConstructorPhase lists functions that may touch the fields without the
	// lock because the value has not escaped yet; each must be referenced
	// only from the other functions of this table or from Constructor.
	ConstructorPhase map[string]string
	Constructor      string
	// ReadOK lists fields that may be read (not written) without the lock,
	// with the reason.
	ReadOK map[string]string
}

const (
	lkNone  = 0
	lkRead  = 1
	lkWrite = 2
)

type lockAccess struct {
	fn    *Func // root function
	v     *flow.Vertex
	field string
	write bool
	node  ast.Node
}

// lockStates computes the must-held lock level at the entry of each vertex
// of f given the level held on entry.
func lockStates(f *Func, isLockOp func(c *ast.CallExpr) (op string, ok bool), entry int) map[*flow.Vertex]int {
	g := f.Graph()
	in := map[*flow.Vertex]int{}
	out := map[*flow.Vertex]int{}
	for _, v := range g.V {
		in[v], out[v] = lkWrite, lkWrite
	}
	in[g.Entry], out[g.Entry] = entry, entry
	transfer := func(v *flow.Vertex, s int) int {
		if v.Kind == flow.KDefer || v.Kind == flow.KEntry {
			return s
		}
		v.Inspect(false, func(n ast.Node) bool {
			if _, isGo := n.(*ast.GoStmt); isGo {
				return false
			}
			c, ok := n.(*ast.CallExpr)
			if !ok {
				return true
			}
			if op, ok := isLockOp(c); ok {
				switch op {
				case "Lock":
					s = lkWrite
				case "RLock":
					s = lkRead
				case "Unlock", "RUnlock":
					s = lkNone
				}
			}
			return true
		})
		return s
	}
	changed := true
	for changed {
		changed = false
		for _, v := range g.V {
			if v == g.Entry {
				continue
			}
			s := lkWrite
			any := false
			for _, e := range v.In {
				any = true
				if out[e.From] < s {
					s = out[e.From]
				}
			}
			if !any {
				continue
			}
			if s != in[v] {
				in[v] = s
				changed = true
			}
			o := transfer(v, s)
			if o != out[v] {
				out[v] = o
				changed = true
			}
		}
	}
	return in
}

// CheckLocks verifies the lock discipline of spec and records sites and
// failures on o.
func (p *Prog) CheckLocks(o *Obl, spec LockSpec) {
	T := p.LookupType(spec.Pkg, spec.Type)
	st := T.Underlying().(*types.Struct)
	guarded := map[*types.Var]string{}
	var mutex *types.Var
	for i := 0; i < st.NumFields(); i++ {
		f := st.Field(i)
		if f.Name() == spec.Mutex {
			mutex = f
		}
		for _, g := range spec.Fields {
			if f.Name() == g {
				guarded[f] = g
			}
		}
	}
	if mutex == nil || len(guarded) != len(spec.Fields) {
		anchorf("lock spec %s.%s: mutex %s or guarded fields %v not found", spec.Pkg, spec.Type, spec.Mutex, spec.Fields)
	}
	roots := []*Func{}
	for _, f := range p.Funcs(false, spec.Pkg) {
		if f.Lit == nil {
			roots = append(roots, f)
		}
	}
	isLockOpIn := func(f *Func) func(c *ast.CallExpr) (string, bool) {
		info := f.Info()
		return func(c *ast.CallExpr) (string, bool) {
			sel, ok := ast.Unparen(c.Fun).(*ast.SelectorExpr)
			if !ok {
				return "", false
			}
			switch sel.Sel.Name {
			case "Lock", "RLock", "Unlock", "RUnlock":
			default:
				return "", false
			}
			if mutex.Embedded() {
				// n.Lock() promoted through the embedded mutex
				if s := info.Selections[sel]; s != nil && s.Kind() == types.MethodVal && len(s.Index()) == 2 {
					if nt := NamedOf(s.Recv()); nt != nil && nt.Obj() == T.Obj() && st.Field(s.Index()[0]) == mutex {
						return sel.Sel.Name, true
					}
				}
			}
			inner, ok := ast.Unparen(sel.X).(*ast.SelectorExpr)
			if !ok {
				return "", false
			}
			if s := info.Selections[inner]; s != nil && s.Obj() == mutex {
				return sel.Sel.Name, true
			}
			return "", false
		}
	}
	// accesses and call sites
	type callSite struct {
		caller *Func
		v      *flow.Vertex
	}
	calls := map[string][]callSite{}
	valueRefs := map[string]bool{}
	var accesses []lockAccess
	for _, f := range roots {
		info := f.Info()
		g := f.Graph()
		for _, v := range g.V {
			v.Inspect(true, func(n ast.Node) bool {
				switch x := n.(type) {
				case *ast.CallExpr:
					if c := Callee(info, x); c != nil {
						calls[FuncID(c)] = append(calls[FuncID(c)], callSite{f, v})
					}
				}
				return true
			})
			// classify writes first
			writes := map[ast.Node]bool{}
			v.Inspect(true, func(n ast.Node) bool {
				mark := func(e ast.Expr) {
					e = ast.Unparen(e)
					if ix, ok := e.(*ast.IndexExpr); ok {
						e = ast.Unparen(ix.X)
						if ix2, ok := e.(*ast.IndexExpr); ok {
							e = ast.Unparen(ix2.X)
						}
					}
					writes[e] = true
				}
				switch x := n.(type) {
				case *ast.AssignStmt:
					for _, l := range x.Lhs {
						mark(l)
					}
				case *ast.IncDecStmt:
					mark(x.X)
				case *ast.CallExpr:
					if CalleeID(info, x) == "builtin.delete" && len(x.Args) > 0 {
						mark(x.Args[0])
					}
				}
				return true
			})
			v.Inspect(true, func(n ast.Node) bool {
				sel, ok := n.(*ast.SelectorExpr)
				if !ok {
					return true
				}
				s := info.Selections[sel]
				if s == nil {
					return true
				}
				fv, ok := s.Obj().(*types.Var)
				if !ok {
					return true
				}
				if name, ok := guarded[fv]; ok {
					accesses = append(accesses, lockAccess{fn: f, v: v, field: name, write: writes[ast.Node(sel)], node: sel})
				}
				return true
			})
		}
		// function values (method values, references without call)
		ast.Inspect(f.Body, func(n ast.Node) bool {
			if c, ok := n.(*ast.CallExpr); ok {
				// skip the callee expression itself
				for ai, a := range c.Args {
					// a method value handed to a same-package function
					// that only ever calls that parameter is a call made
					// at this site
					if callee := Callee(info, c); callee != nil {
						if cf := p.byObj[callee]; cf != nil && callOnlyParam(cf, ai) {
							var ref *types.Func
							switch x := ast.Unparen(a).(type) {
							case *ast.Ident:
								ref, _ = info.Uses[x].(*types.Func)
							case *ast.SelectorExpr:
								ref, _ = info.Uses[x.Sel].(*types.Func)
							}
							if ref != nil {
								if v := f.Graph().Containing(c, true); v != nil {
									calls[FuncID(ref)] = append(calls[FuncID(ref)], callSite{f, v})
									continue
								}
							}
						}
					}
					ast.Inspect(a, func(m ast.Node) bool {
						if id, ok := m.(*ast.Ident); ok {
							if fn, ok := info.Uses[id].(*types.Func); ok {
								valueRefs[FuncID(fn)] = true
							}
						}
						return true
					})
				}
			}
			return true
		})
	}
	// entry levels: greatest fixpoint
	entry := map[string]int{}
	byID := map[string]*Func{}
	for _, f := range roots {
		byID[f.ID] = f
		entry[f.ID] = lkNone
		if f.Obj != nil && !f.Obj.Exported() && len(calls[f.ID]) > 0 && !valueRefs[f.ID] {
			entry[f.ID] = lkWrite
		}
	}
	states := map[string]map[*flow.Vertex]int{}
	for iter := 0; iter < 20; iter++ {
		for _, f := range roots {
			states[f.ID] = lockStates(f, isLockOpIn(f), entry[f.ID])
		}
		changed := false
		for _, f := range roots {
			if entry[f.ID] == lkNone {
				continue
			}
			m := lkWrite
			for _, cs := range calls[f.ID] {
				if _, ctor := spec.ConstructorPhase[cs.caller.ID]; ctor || cs.caller.ID == spec.Constructor {
					continue // the value has not escaped yet
				}
				if s := states[cs.caller.ID][cs.v]; s < m {
					m = s
				}
			}
			if m != entry[f.ID] {
				entry[f.ID] = m
				changed = true
			}
		}
		if !changed {
			break
		}
	}
	sort.Slice(accesses, func(i, j int) bool { return accesses[i].node.Pos() < accesses[j].node.Pos() })
	held := map[string]int{}
	for _, a := range accesses {
		if _, ok := spec.ConstructorPhase[a.fn.ID]; ok {
			held["constructor-phase"]++
			continue
		}
		if a.fn.ID == spec.Constructor {
			held["constructor"]++
			continue
		}
		lvl := states[a.fn.ID][a.v]
		need := lkRead
		if a.write {
			need = lkWrite
		}
		if !a.write {
			if _, ok := spec.ReadOK[a.field]; ok {
				continue
			}
		}
		what := "read"
		if a.write {
			what = "write"
		}
		o.Site("%s of %s.%s in %s at %s: lock level %d (entry %d)", what, spec.Type, a.field, a.fn.ID, a.fn.Where(a.node.Pos()), lvl, entry[a.fn.ID])
		if lvl < need {
			o.FailAt(a.fn.ID+"#"+what+"-"+a.field, a.fn.Where(a.node.Pos()), "%s of %s.%s in %s without holding %s (%s): lock level %d on every path to this statement, need %d", what, spec.Type, a.field, a.fn.ID, spec.Mutex, Text(a.v.Node), lvl, need)
		}
	}
	// constructor-phase functions are reachable only from the constructor
	for id := range spec.ConstructorPhase {
		if byID[id] == nil {
			o.FailAt(id+"#constructor-phase-missing", "", "constructor-phase function %s not found", id)
			continue
		}
		for _, cs := range calls[id] {
			if _, ok := spec.ConstructorPhase[cs.caller.ID]; !ok && cs.caller.ID != spec.Constructor {
				o.FailAt(id+"#called-after-construction", cs.caller.Where(cs.v.Pos()), "%s touches guarded fields without the lock and is called from %s, which is not part of construction", id, cs.caller.ID)
			}
		}
		if valueRefs[id] {
			o.FailAt(id+"#escapes", "", "%s is referenced as a function value", id)
		}
	}
}

// LockLevelAt returns the must-held level of spec's mutex at site s assuming
// the function is entered without the lock.
func (p *Prog) LockLevelAt(spec LockSpec, s Site) int {
	T := p.LookupType(spec.Pkg, spec.Type)
	st := T.Underlying().(*types.Struct)
	var mutex *types.Var
	for i := 0; i < st.NumFields(); i++ {
		if st.Field(i).Name() == spec.Mutex {
			mutex = st.Field(i)
		}
	}
	f := s.Fn
	info := f.Info()
	states := lockStates(f, func(c *ast.CallExpr) (string, bool) {
		sel, ok := ast.Unparen(c.Fun).(*ast.SelectorExpr)
		if !ok {
			return "", false
		}
		inner, ok := ast.Unparen(sel.X).(*ast.SelectorExpr)
		if !ok {
			return "", false
		}
		if sl := info.Selections[inner]; sl != nil && sl.Obj() == mutex {
			return sel.Sel.Name, true
		}
		return "", false
	}, lkNone)
	return states[s.V]
}

// callOnlyParam reports whether parameter i of f is used only as the callee
// of calls and in comparisons with nil.
func callOnlyParam(f *Func, i int) bool {
	ps := f.Params(false)
	if i >= len(ps) || ps[i] == nil {
		return false
	}
	if _, ok := ps[i].Type().Underlying().(*types.Signature); !ok {
		return false
	}
	info := f.Info()
	ok := true
	var walk func(n ast.Node, parent ast.Node)
	stack := []ast.Node{}
	ast.Inspect(f.Body, func(n ast.Node) bool {
		if n == nil {
			stack = stack[:len(stack)-1]
			return true
		}
		if id, isID := n.(*ast.Ident); isID && info.Uses[id] == ps[i] {
			parent := stack[len(stack)-1]
			switch x := parent.(type) {
			case *ast.CallExpr:
				if ast.Unparen(x.Fun) != ast.Expr(id) {
					ok = false
				}
			case *ast.BinaryExpr:
				if !(IsNilIdent(info, x.X) || IsNilIdent(info, x.Y)) {
					ok = false
				}
			default:
				ok = false
			}
		}
		stack = append(stack, n)
		return true
	})
	_ = walk
	return ok
}
