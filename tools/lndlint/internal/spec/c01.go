package spec

import (
	"go/ast"
	"strings"

	"lndlint/internal/an"
)

func init() {
	register(&Spec{
		ID:          "C01",
		Loads:       []LoadSpec{{Patterns: []string{"./lnwallet", "./htlcswitch", "./channeldb"}}},
		Explanation: "Decides that signer and verifier share one commitment construction (WHO), that the two perspectives of that construction are mirror images (MIRROR), that every dust classification agrees with the HTLC list iterated and selects dust limit and commitment owner by the same predicate (ROLE), that the second-level transactions are built with mirrored arguments by signer and verifier, that capacity / sanity / fee-floor guards dominate every success return, that the fee is debited from the opener only and balances move only by entry.Amount under the not-yet-applied guards (TABLE/GUARD), that the five settle/fail entry points share the lookup / not-modified / preimage guards, and that the update-log counters have a single writer form.",
		NotDecided: []string{
			"byte equality of scripts and transactions across the two peers (needs execution of script construction on both sides)",
			"BIP-69 / custom sort semantics", "exactness of millisatoshi arithmetic and rounding",
			"the space of message interleavings; mirror-image views at quiescence",
		},
		Assumptions: commonAssumptions,
		Engines:     "WHO, MIRROR/ROLE (canonical argument fingerprints), GUARD, PATH, TABLE, STATE",
		TagMatrix:   [][]string{{"integration"}},
		Run:         runC01,
	})
}

const lw = "lnwallet."

func runC01(r *an.Run) {
	p := r.Prog

	r.Obl("single-commitment-evaluator", "WHO",
		"createUnsignedCommitmentTx is referenced only by fetchCommitmentView; fetchCommitmentView only by SignNextCommitment and ReceiveNewCommitment; evaluateHTLCView only by computeView; CreateCommitTx only by createUnsignedCommitmentTx and the funding path CreateCommitmentTxns",
		"a second construction path for either the signer or the verifier is exactly how the two sides come to disagree on a commitment", 6,
		func(o *an.Obl) {
			w := r.Wide()
			chk := func(pkg, typ, name string, allowed map[string]string, required ...string) {
				var obj interface{ Name() string }
				_ = obj
				if typ == "" {
					w.WhoMay(o, pkg+"."+name, w.RefsTo(w.LookupObj(pkg, name), true), allowed, required)
				} else {
					w.WhoMay(o, pkg+"."+typ+"."+name, w.RefsTo(w.Method(pkg, typ, name), true), allowed, required)
				}
			}
			chk("lnwallet", "CommitmentBuilder", "createUnsignedCommitmentTx",
				map[string]string{lw + "LightningChannel.fetchCommitmentView": "the single evaluator"}, lw+"LightningChannel.fetchCommitmentView")
			chk("lnwallet", "LightningChannel", "fetchCommitmentView", map[string]string{
				lw + "LightningChannel.SignNextCommitment":   "signer",
				lw + "LightningChannel.ReceiveNewCommitment": "verifier",
			}, lw+"LightningChannel.SignNextCommitment", lw+"LightningChannel.ReceiveNewCommitment")
			chk("lnwallet", "LightningChannel", "evaluateHTLCView",
				map[string]string{lw + "LightningChannel.computeView": "the single view evaluator"}, lw+"LightningChannel.computeView")
			chk("lnwallet", "", "CreateCommitTx", map[string]string{
				lw + "CommitmentBuilder.createUnsignedCommitmentTx": "state machine",
				lw + "CreateCommitmentTxns":                         "funding flow: initial commitments, no HTLCs",
			}, lw+"CommitmentBuilder.createUnsignedCommitmentTx")
		})

	r.Obl("commit-tx-perspectives-mirror", "MIRROR",
		"the two CreateCommitTx calls of createUnsignedCommitmentTx (and of CreateCommitmentTxns) are images of each other under Local<->Remote config, our<->their balance and negated initiator flag; the local one is reached only when whoseCommit.IsLocal(); in the funding path the first call is our perspective (local commit point, ourChanCfg, localBalance, initiator) and the two transactions are returned as (ours, theirs)",
		"if the remote-perspective call is not the exact mirror of the local one the two peers build different transactions for the same state", 8,
		func(o *an.Obl) {
			f := p.Func(lw + "CommitmentBuilder.createUnsignedCommitmentTx")
			sites := f.Calls(an.CalleeIs(lw+"CreateCommitTx"), false)
			if len(sites) != 2 {
				o.FailAt(f.ID+"#CreateCommitTx-count", f.Where(f.Body.Pos()), "expected two CreateCommitTx calls, found %d", len(sites))
				return
			}
			mirrorSites(o, f, sites[0], sites[1], [][2]string{
				{"LocalChanCfg", "RemoteChanCfg"}, {"$p0", "$p1"},
				{"$recv.chanState.IsInitiator", "!$recv.chanState.IsInitiator"},
			})
			isLocal := an.Truth(an.CallNamed("IsLocal", an.Param(2)), true, "whoseCommit.IsLocal()")
			guarded(o, f, sites[0], isLocal)
			notLocal := an.Truth(an.CallNamed("IsLocal", an.Param(2)), false, "!whoseCommit.IsLocal()")
			guarded(o, f, sites[1], notLocal)
			// first call passes the local config first
			if a := f.ArgCanon(sites[0]); !strings.Contains(a[3], "LocalChanCfg") || !strings.Contains(a[5], "$p0") || strings.HasPrefix(a[8], "!") {
				o.FailAt(f.ID+"#local-perspective", sites[0].Where(), "the IsLocal() branch must pass (LocalChanCfg, RemoteChanCfg, ourBalance, theirBalance, IsInitiator); got %v", a)
			}
			g := p.Func(lw + "CreateCommitmentTxns")
			gs := g.Calls(an.CalleeIs(lw+"CreateCommitTx"), false)
			if len(gs) == 2 {
				mirrorSites(o, g, gs[0], gs[1], [][2]string{
					{"$p2", "$p3"}, {"$p0", "$p1"}, {"$p8", "!$p8"}, {"localAuxLeaves", "remoteAuxLeaves"},
				}, 2)
				// the key rings: DeriveCommitmentKeys always takes (local cfg,
				// remote cfg); only the commit point and the owner change
				a0, a1 := g.ArgCanon(gs[0])[2], g.ArgCanon(gs[1])[2]
				if an.Swap(a0, [][2]string{{"$p4", "$p5"}, {"Local", "Remote"}}) != a1 {
					o.FailAt(g.ID+"#keyring-mirror", gs[1].Where(), "key rings of the two initial commitments are not mirrored: %s vs %s", a0, a1)
				}
				c01FundingPerspectives(o, g, gs)
			} else {
				o.FailAt(g.ID+"#CreateCommitTx-count", g.Where(g.Body.Pos()), "expected two CreateCommitTx calls in the funding path, found %d", len(gs))
			}
		})

	r.Obl("dust-classification-agrees", "ROLE",
		"every HtlcIsDust call site: the `incoming` argument agrees with the HTLC list of the enclosing loop (Updates.Local / outgoingHTLCs / updateLogs.Local => false, the Remote/incoming lists => true, or the HTLC's own Incoming flag together with its own amount); the commitment owner and the dust limit are selected by the same predicate; the weight loop (computeView) and the output-count and output loops (createUnsignedCommitmentTx) have identical fingerprints: within one function all constant-direction sites agree on (chanType, owner, fee rate, dust limit), classify <loop element>.Amount.ToSatoshis(), and in the trimming loops (computeView, createUnsignedCommitmentTx, genRemoteHtlcSigJobs) the dust edge of the test ends the iteration without effect while the other edge does the work (GetDustSum: the reverse); the fee rate is that of the commitment being built (the evaluated view's rate in computeView, handed by fetchCommitmentView to the builder and stored in the commitment, from where the signer and populateHtlcIndexes read it); HtlcIsDust returns (htlcAmt - htlcFee) < dustLimit with the success fee for HTLCs the commitment owner receives and the timeout fee for those it offers; addHTLC adds the element of its loop with the direction of the loop's list; extractHtlcResolutions receives (local config, remote config) of one channel",
		"a disagreement makes the commitment fee cover a different number of HTLCs than there are outputs — the mis-counted dust HTLC of the property text", 41,
		func(o *an.Obl) { dustSites(o, r) })

	r.Obl("second-level-signer-verifier-mirror", "ROLE",
		"genRemoteHtlcSigJobs builds timeout txs for incoming and success txs for outgoing HTLCs of the remote commitment with (!IsInitiator, RemoteChanCfg.CsvDelay, remoteOutputIndex); genHtlcSigValidationJobs builds success txs for incoming and timeout txs for outgoing HTLCs of the local commitment with (IsInitiator, LocalChanCfg.CsvDelay, localOutputIndex); both subtract the matching fee function at the fee rate of the commitment being signed / verified, pass their leaseExpiry parameter, and use keyRing.RevocationKey/ToLocalKey; the verifier's success closure is created below incomingHTLCIndex[outputIndex] != nil and reads the HTLC taken from that index (timeout: outgoingHTLCIndex); every sighash computation of the verifier and every sign descriptor of the signer uses the result of HtlcSigHashType(chanType)",
		"the verifier must rebuild byte-for-byte what the signer signed; any asymmetric argument makes every HTLC signature invalid for some channel type", 16,
		func(o *an.Obl) {
			pp := `\$p\d+`
			roleSites(o, p, []string{"lnwallet"}, lw+"CreateHtlcTimeoutTx", []role{
				{Fn: lw + "genRemoteHtlcSigJobs", Name: "signer/incoming->timeout", Args: map[int]string{
					1: `^!` + pp + `\.IsInitiator$`, 2: `incomingHTLCs\)\.remoteOutputIndex`, 3: `incomingHTLCs\)\.Amount\.ToSatoshis\(\) - lnwallet\.HtlcTimeoutFee\(\$p1\.ChanType, \$p3\.feePerKw\)\)$`,
					4: `incomingHTLCs\)\.Timeout$`, 5: `RemoteChanCfg\.CsvDelay`, 6: `^\$p2$`, 7: `\.RevocationKey$`, 8: `\.ToLocalKey$`}},
				{Fn: lw + "genHtlcSigValidationJobs", Name: "verifier/outgoing->timeout", Args: map[int]string{
					1: `^` + pp + `\.IsInitiator$`, 2: `localOutputIndex`, 3: `Amount\.ToSatoshis\(\) - lnwallet\.HtlcTimeoutFee\(\$p0\.ChanType, \$p1\.feePerKw\)\)$`,
					4: `\.Timeout$`, 5: `LocalChanCfg\.CsvDelay`, 6: `^\$p4$`, 7: `\.RevocationKey$`, 8: `\.ToLocalKey$`}},
				{Fn: lw + "newOutgoingHtlcResolution", Name: "resolution/outgoing->timeout (C05)", Args: map[int]string{
					3: `Amt\.ToSatoshis\(\) - lnwallet\.HtlcTimeoutFee\(`, 4: `RefundTimeout$`, 7: `\.RevocationKey$`, 8: `\.ToLocalKey$`}},
			}, nil)
			roleSites(o, p, []string{"lnwallet"}, lw+"CreateHtlcSuccessTx", []role{
				{Fn: lw + "genRemoteHtlcSigJobs", Name: "signer/outgoing->success", Args: map[int]string{
					1: `^!` + pp + `\.IsInitiator$`, 2: `outgoingHTLCs\)\.remoteOutputIndex`, 3: `outgoingHTLCs\)\.Amount\.ToSatoshis\(\) - lnwallet\.HtlcSuccessFee\(\$p1\.ChanType, \$p3\.feePerKw\)\)$`,
					4: `RemoteChanCfg\.CsvDelay`, 5: `^\$p2$`, 6: `\.RevocationKey$`, 7: `\.ToLocalKey$`}},
				{Fn: lw + "genHtlcSigValidationJobs", Name: "verifier/incoming->success", Args: map[int]string{
					1: `^` + pp + `\.IsInitiator$`, 2: `localOutputIndex`, 3: `Amount\.ToSatoshis\(\) - lnwallet\.HtlcSuccessFee\(\$p0\.ChanType, \$p1\.feePerKw\)\)$`,
					4: `LocalChanCfg\.CsvDelay`, 5: `^\$p4$`, 6: `\.RevocationKey$`, 7: `\.ToLocalKey$`}},
				{Fn: lw + "newIncomingHtlcResolution", Name: "resolution/incoming->success (C05)", Args: map[int]string{
					3: `Amt\.ToSatoshis\(\) - lnwallet\.HtlcSuccessFee\(`, 6: `\.RevocationKey$`, 7: `\.ToLocalKey$`}},
			}, nil)
			// which list each verifier closure is fed from: the success
			// (incoming) branch reads incomingHTLCIndex, the timeout branch
			// outgoingHTLCIndex
			v := p.Func(lw + "genHtlcSigValidationJobs")
			for _, s := range v.Calls(an.CalleeIs(lw+"HtlcSigHashType"), true) {
				o.Site("%s", s.String())
			}
			for _, fn := range []string{lw + "genRemoteHtlcSigJobs", lw + "genHtlcSigValidationJobs"} {
				if len(p.Func(fn).Calls(an.CalleeIs(lw+"HtlcSigHashType"), true)) == 0 {
					o.FailAt(fn+"#HtlcSigHashType", "", "%s no longer derives the sighash type through HtlcSigHashType", fn)
				}
			}
			c01SigHashTypes(o, p.Func(lw+"genRemoteHtlcSigJobs"), v)
			c01VerifierFeeds(o, v, lw+"CreateHtlcSuccessTx", "incomingHTLCIndex")
			c01VerifierFeeds(o, v, lw+"CreateHtlcTimeoutTx", "outgoingHTLCIndex")
		})

	r.Obl("construction-guards", "GUARD",
		"every success return of createUnsignedCommitmentTx is below !(totalOut+commitFee > Capacity), CheckTransactionSanity ok, SetStateNumHint ok and the sort ok, and all addHTLC calls precede the sort; the state hint encodes the height parameter under the channel's obfuscator; every success return of fetchCommitmentView is below !(effFeeRate < AbsoluteFeePerKwFloor) where effFeeRate = (Capacity - sum of the outputs of the built transaction) * 1000 / weight, the builder receives tip().height+1 as height and the commitment stores the same height, createUnsignedCommitmentTx ok and populateHtlcIndexes ok",
		"outputs plus fee must never exceed capacity; an unsorted or un-hinted transaction differs from the peer's", 15,
		func(o *an.Obl) {
			f := p.Func(lw + "CommitmentBuilder.createUnsignedCommitmentTx")
			succ := f.StrictSuccessReturns()
			capGuard := an.Cmp(an.Bin(tokADD, an.Any(), an.Any()), an.LE, an.FieldPath(nil, "Capacity"), "totalOut+commitFee <= Capacity")
			guardedAll(o, f, succ, capGuard)
			mustPass(o, f, "CheckTransactionSanity", f.Calls(an.CalleeNamed("CheckTransactionSanity"), false), an.OkErrNil, succ)
			hints := f.Calls(an.CalleeIs(lw+"SetStateNumHint"), false)
			mustPass(o, f, "SetStateNumHint", hints, an.OkErrNil, succ)
			if needExactly(o, f, "SetStateNumHint", hints, 1) {
				// the hint encodes the height parameter under the channel's obfuscator
				if a := f.ArgCanon(hints[0]); a[1] != "$p4" || a[2] != "$recv.obfuscator" {
					o.FailAt(f.ID+"#state-hint-args", hints[0].Where(), "SetStateNumHint must encode the commitment height parameter under the channel's obfuscator; got (%s, %s)", a[1], a[2])
				}
				notReassigned(o, f, f.Params(false)[4].Name())
			}
			// the sort is a call of a function value obtained from
			// CommitSortFunc.UnwrapOr(DefaultCommitSort)
			sortCalls := f.CallsMatching(func(fn *an.Func, e ast.Expr) bool {
				c, ok := e.(*ast.CallExpr)
				if !ok {
					return false
				}
				id, ok := c.Fun.(*ast.Ident)
				if !ok {
					return false
				}
				d := fn.UniqueDef(id)
				return d != nil && strings.Contains(an.Text(d), "DefaultCommitSort")
			}, false)
			mustPass(o, f, "commit sort", sortCalls, an.OkErrNil, succ)
			adds := f.Calls(an.CalleeIs(lw+"addHTLC"), false)
			if need(o, f, "addHTLC", adds, 2) && len(sortCalls) == 1 {
				for _, a := range adds {
					o.Site("%s before sort", a.String())
					if f.Graph().Reach(sortCalls[0].V, nil, nil)[a.V] {
						o.FailAt(constructOf(f, a)+"#after-sort", a.Where(), "an HTLC output is added after the transaction was sorted")
					}
				}
			}
			g := p.Func(lw + "LightningChannel.fetchCommitmentView")
			gs := g.StrictSuccessReturns()
			// effFeeRate = (Capacity - sum of the outputs) * 1000 / (weight + witness weight)
			effRate := canonTerm(`^\(\(\S*SatPerKWeight\(\(\$recv\.channelState\.Capacity - \$v:\S*Amount\)\) \* 1000\) / \S*SatPerKWeight\(\(\S*GetTransactionWeight\(.*\) \+ \$v:int64\)\)\)$`)
			floor := an.Cmp(effRate, an.GE, an.PkgVar("lnwallet/chainfee", "AbsoluteFeePerKwFloor"), "effFeeRate >= AbsoluteFeePerKwFloor")
			guardedAll(o, g, gs, floor)
			c01EffectiveFeeInputs(o, g)
			mustPass(o, g, "createUnsignedCommitmentTx", g.Calls(an.CalleeIs(lw+"CommitmentBuilder.createUnsignedCommitmentTx"), false), an.OkErrNil, gs)
			mustPass(o, g, "populateHtlcIndexes", g.Calls(an.CalleeIs(lw+"commitment.populateHtlcIndexes"), false), an.OkErrNil, gs)
			mustPass(o, g, "computeView", g.Calls(an.CalleeIs(lw+"LightningChannel.computeView"), false), an.OkErrNil, gs)
		})

	r.Obl("fee-borne-by-opener", "TABLE",
		"the fee switch of createUnsignedCommitmentTx: ourBalance is written only below IsInitiator, theirBalance only below !IsInitiator; zeroing happens only below fee > balance of the same side; the debit is NewMSatFromSatoshis of the compared fee; the returned unsignedCommitmentTx carries the two balance parameters and that fee, and the capacity check adds that fee to the sum of the outputs; apart from applying the deltas of evaluateHTLCView (tabled by balance-moves-by-entry-amount) computeView writes each returned balance exactly twice: start from tip().ourBalance / theirBalance of the chain selected by whoseCommitChain, and credit the previous fee of that same tip back to the opener (ourBalance below IsInitiator, theirBalance below !IsInitiator)",
		"the commitment fee aside (always borne by the opener) a balance moves only by HTLC amounts", 16,
		func(o *an.Obl) {
			f := p.Func(lw + "CommitmentBuilder.createUnsignedCommitmentTx")
			isInit := an.FieldPath(nil, "IsInitiator")
			our, their := an.Param(0), an.Param(1)
			ow := f.Assigns(our, false)
			tw := f.Assigns(their, false)
			if len(ow) != 2 || len(tw) != 2 {
				o.FailAt(f.ID+"#balance-writers", f.Where(f.Body.Pos()), "expected exactly two writes each of ourBalance/theirBalance in the fee switch, found %d/%d", len(ow), len(tw))
			}
			guardedAll(o, f, ow, an.Truth(isInit, true, "IsInitiator"))
			guardedAll(o, f, tw, an.Truth(isInit, false, "!IsInitiator"))
			// decision table over (IsInitiator, fee > our, fee > their)
			atoms := []string{"$recv.chanState.IsInitiator", "", ""}
			for _, v := range f.Graph().V {
				c := f.AtomCanon(v)
				if strings.HasSuffix(c, "> $p0.ToSatoshis())") {
					atoms[1] = c
				}
				if strings.HasSuffix(c, "> $p1.ToSatoshis())") {
					atoms[2] = c
				}
			}
			if atoms[1] == "" || atoms[2] == "" {
				o.FailAt(f.ID+"#fee-atoms", f.Where(f.Body.Pos()), "cannot find the `commitFee > balance.ToSatoshis()` tests of the fee switch")
				return
			}
			fee := c01FeeCanon(atoms)
			if fee == "" {
				o.FailAt(f.ID+"#fee-atoms-differ", f.Where(f.Body.Pos()), "the two sides of the fee switch compare different fees: %s / %s", atoms[1], atoms[2])
				return
			}
			c01BuilderResult(o, f, fee)
			kind := func(s an.Site) string {
				as := s.Node.(*ast.AssignStmt)
				who := "our"
				if an.Match(f, their, as.Lhs[0]) {
					who = "their"
				}
				if as.Tok == tokASSIGN && an.IntConst(0)(f, ast.Unparen(as.Rhs[0])) {
					return who + "=0"
				}
				if as.Tok == tokSUBASSIGN {
					// the debit is the compared fee, converted to millisatoshi
					if rhs := f.Canon(as.Rhs[0]); rhs != "lnwire.NewMSatFromSatoshis("+fee+")" {
						return who + "-=" + rhs
					}
					return who + "-=fee"
				}
				return who + "?" + an.Text(as)
			}
			for _, val := range an.Valuations(atoms) {
				reach := f.ReachUnder(an.ByCanon(val))
				var got []string
				for _, s := range append(append([]an.Site{}, ow...), tw...) {
					if reach[s.V] {
						got = append(got, kind(s))
					}
				}
				want := ""
				switch {
				case val[atoms[0]] && val[atoms[1]]:
					want = "our=0"
				case val[atoms[0]]:
					want = "our-=fee"
				case val[atoms[2]]:
					want = "their=0"
				default:
					want = "their-=fee"
				}
				o.Site("fee table row (initiator=%v, fee>our=%v, fee>their=%v) -> %v", val[atoms[0]], val[atoms[1]], val[atoms[2]], got)
				if len(got) != 1 || got[0] != want {
					o.FailAt(f.ID+"#fee-table", f.Where(f.Body.Pos()), "fee switch: under %s the reachable balance writes are %v, expected exactly [%s]", an.ValString(atoms, val), got, want)
				}
			}
			g := p.Func(lw + "LightningChannel.computeView")
			c01ComputeViewBalances(o, g, isInit, "fee")
			for _, s := range g.Assigns(an.LocalNamed("ourBalance"), false) {
				if as, ok := s.Node.(*ast.AssignStmt); ok && as.Tok == tokADDASSIGN && strings.Contains(an.Text(as.Rhs[0]), ".fee") {
					guarded(o, g, s, an.Truth(isInit, true, "IsInitiator"))
				}
			}
			for _, s := range g.Assigns(an.LocalNamed("theirBalance"), false) {
				if as, ok := s.Node.(*ast.AssignStmt); ok && as.Tok == tokADDASSIGN && strings.Contains(an.Text(as.Rhs[0]), ".fee") {
					guarded(o, g, s, an.Truth(isInit, false, "!IsInitiator"))
				}
			}
		})

	r.Obl("balance-moves-by-entry-amount", "GUARD",
		"evaluateHTLCView: the three balanceDeltas.ModifyForParty sites credit the settling party, credit the counterparty of a failing party, and debit the adding party; each moves exactly entry.Amount; credits happen only below removeCommitHeights[whoseCommit] == 0 and the debit only below addCommitHeights[whoseCommit] == 0; evaluateNoOpHtlc is reached only for a Settle whose parent is a NoOpAdd; the debit loop ranges over fn.Filter(view.Updates.GetForParty(party), pd.isAdd() && !skip[party].Contains(pd.HtlcIndex)); computeView applies the returned deltas to the balance of the same side: ourBalance += deltas.Local below deltas.Local >= 0 and -= -deltas.Local otherwise, theirBalance likewise with deltas.Remote, and no other write of the returned balances mentions the deltas",
		"a balance moves only by the amount of an HTLC that was added, settled or failed, and only once per commitment chain", 17,
		func(o *an.Obl) {
			f := p.Func(lw + "LightningChannel.evaluateHTLCView")
			sites := f.Calls(an.CalleeNamed("ModifyForParty"), false)
			if len(sites) != 3 {
				o.FailAt(f.ID+"#ModifyForParty-count", f.Where(f.Body.Pos()), "expected three balance modifications, found %d", len(sites))
				return
			}
			whose := an.Param(1)
			rmv0 := an.Cmp(an.CallNamed("GetForParty", an.FieldPath(nil, "removeCommitHeights"), whose), an.EQ, an.IntConst(0), "removeCommitHeights[whoseCommit] == 0")
			add0 := an.Cmp(an.CallNamed("GetForParty", an.FieldPath(nil, "addCommitHeights"), whose), an.EQ, an.IntConst(0), "addCommitHeights[whoseCommit] == 0")
			isSettle := an.Cmp(an.FieldPath(nil, "EntryType"), an.EQ, an.PkgVar("lnwallet", "Settle"), "entry.EntryType == Settle")
			notSettle := an.Cmp(an.FieldPath(nil, "EntryType"), an.NE, an.PkgVar("lnwallet", "Settle"), "entry.EntryType != Settle")
			want := []struct {
				party  string
				sign   string
				guards []an.Fact
			}{
				{`^\$elem\(.*\)$`, "+", []an.Fact{rmv0, isSettle}},
				{`^\$elem\(.*\)\.CounterParty\(\)$`, "+", []an.Fact{rmv0, notSettle}},
				{`^\$elem\(.*\)$`, "-", []an.Fact{add0}},
			}
			// the closure body: acc (+|-) int64(entry.Amount)
			closure := func(s an.Site) string {
				c := s.Node.(*ast.CallExpr)
				if fl, ok := c.Args[1].(*ast.FuncLit); ok && len(fl.Body.List) == 1 {
					if rs, ok := fl.Body.List[0].(*ast.ReturnStmt); ok && len(rs.Results) == 1 {
						if lf := f.LitFunc(fl); lf != nil {
							return lf.Canon(rs.Results[0])
						}
					}
				}
				return ""
			}
			// The three roles (settle credit, fail credit, add debit) are told
			// apart by what the site does -- which party it pays and with which
			// sign -- not by the order in which the arms appear in the source:
			// the arms of the credit switch are mutually exclusive, so their
			// order carries no meaning. A site fills the role whose (party,
			// sign) it has and must then satisfy that role's guards; when the
			// three sites do not fill the three roles one to one the source
			// order is kept, and the per-role checks below report the odd one.
			roleOf := func(s an.Site) int {
				counter := strings.Contains(f.ArgCanon(s)[0], "CounterParty")
				minus := reMatch(`^\(\$lit\.p0 - `, closure(s))
				switch {
				case counter && !minus:
					return 1
				case !counter && minus:
					return 2
				case !counter && !minus:
					return 0
				}
				return -1
			}
			byRole := make([]an.Site, 3)
			filled := map[int]int{}
			for _, s := range sites {
				if k := roleOf(s); k >= 0 {
					byRole[k] = s
					filled[k]++
				}
			}
			if filled[0] != 1 || filled[1] != 1 || filled[2] != 1 {
				copy(byRole, sites)
			}
			sites = byRole
			for i, s := range sites {
				a := f.ArgCanon(s)
				if !reMatch(want[i].party, a[0]) || strings.Count(a[0], "CounterParty") != strings.Count(want[i].party, "CounterParty") {
					o.FailAt(f.ID+"#delta-party-"+itoa(i), s.Where(), "balance modification %d goes to %s, expected /%s/", i, a[0], want[i].party)
				}
				guardedAll(o, f, []an.Site{s}, want[i].guards...)
				body := closure(s)
				ok := reMatch(`^\(\$lit\.p0 \`+want[i].sign+` int64\(\$elem\(.*\)\.Amount\)\)$`, body)
				if !ok {
					o.FailAt(f.ID+"#delta-amount-"+itoa(i), s.Where(), "balance modification %d computes %q, expected acc %s int64(entry.Amount)", i, body, want[i].sign)
				}
			}
			// the no-op arm takes only settles of no-op adds away from the
			// credit arm
			noop := f.Calls(an.CalleeIs(lw+"LightningChannel.evaluateNoOpHtlc"), false)
			if needExactly(o, f, "evaluateNoOpHtlc", noop, 1) {
				isNoOp := an.Cmp(an.FieldPath(nil, "EntryType"), an.EQ, an.PkgVar("lnwallet", "NoOpAdd"), "addEntry.EntryType == NoOpAdd")
				guardedAll(o, f, noop, rmv0, isSettle, isNoOp)
				if a := f.ArgCanon(noop[0]); !reMatch(`^\$elem\(`, a[0]) || a[1] != f.ArgCanon(sites[0])[0] {
					o.FailAt(f.ID+"#noop-args", noop[0].Where(), "evaluateNoOpHtlc must receive the settle entry and the settling party; got (%s, %s)", a[0], a[1])
				}
			}
			// the debit loop sees the party's adds that no settle/fail removed
			c01LiveAddsFilter(o, f, sites[2], f.ArgCanon(sites[2])[0])
			// computeView applies the deltas to the balance of the same side
			c01ComputeViewBalances(o, p.Func(lw+"LightningChannel.computeView"), an.FieldPath(nil, "IsInitiator"), "deltas")
		})

	r.Obl("settle-fail-family", "GUARD",
		"SettleHTLC, FailHTLC, MalformedFailHTLC (remote log -> local append) and ReceiveHTLCSettle, ReceiveFailHTLC (local log -> remote append): appendUpdate is below lookupHtlc != nil and !htlcHasModification on the log the HTLC lives in, is followed on every path by markHtlcModified(htlcIndex) on that log, and the two settle variants are additionally below lookupHtlc(htlcIndex).RHash == sha256(preimage[:]) of the preimage parameter; the appended entry is stamped with the logIndex of the log it is appended to, carries the looked-up HTLC's amount, the HTLC index as ParentIndex and the entry type of the entry point; appendUpdate has no other caller for Settle/Fail entries",
		"a second settle/fail of one HTLC, or a settle with a wrong preimage, moves a balance twice or without the payment being claimable upstream", 30,
		func(o *an.Obl) {
			type fam struct {
				fn, from, to string
				settle       bool
			}
			for _, m := range []fam{
				{"SettleHTLC", "Remote", "Local", true}, {"FailHTLC", "Remote", "Local", false}, {"MalformedFailHTLC", "Remote", "Local", false},
				{"ReceiveHTLCSettle", "Local", "Remote", true}, {"ReceiveFailHTLC", "Local", "Remote", false},
			} {
				f := p.Func(lw + "LightningChannel." + m.fn)
				fromLog := an.FieldPath(an.FieldPath(nil, "updateLogs"), m.from)
				toLog := an.FieldPath(an.FieldPath(nil, "updateLogs"), m.to)
				app := f.CallsMatching(an.CallTo(lw+"updateLog.appendUpdate", toLog), false)
				if len(app) != 1 {
					o.FailAt(f.ID+"#appendUpdate", f.Where(f.Body.Pos()), "%s: expected one appendUpdate on updateLogs.%s, found %d", m.fn, m.to, len(app))
					continue
				}
				guarded(o, f, app[0], an.IsNil(an.CallTo(lw+"updateLog.lookupHtlc", fromLog, an.Param(indexParam(m.fn))), false, "lookupHtlc(htlcIndex) != nil"))
				guarded(o, f, app[0], an.Truth(an.CallTo(lw+"updateLog.htlcHasModification", fromLog, an.Param(indexParam(m.fn))), false, "!htlcHasModification(htlcIndex)"))
				if m.settle {
					looked := an.CallTo(lw+"updateLog.lookupHtlc", fromLog, an.Param(indexParam(m.fn)))
					guarded(o, f, app[0], an.Cmp(an.Field("", "RHash", looked), an.EQ, an.CallTo("crypto/sha256.Sum256", nil, canonTerm(`^\$p0\[:\]$`)), "lookupHtlc(htlcIndex).RHash == sha256(preimage[:])"))
				}
				c01FamilyDescriptor(o, f, app[0], m.fn, m.from, m.to, indexParam(m.fn), m.settle)
				notReassigned(o, f, f.Params(false)[0].Name(), f.Params(false)[1].Name())
				mark := f.CallsMatching(an.CallTo(lw+"updateLog.markHtlcModified", fromLog, an.Param(indexParam(m.fn))), false)
				o.Site("%s: markHtlcModified sites %d", m.fn, len(mark))
				if len(mark) == 0 || !f.PostDominated(app[0], mark) {
					o.FailAt(f.ID+"#markHtlcModified", app[0].Where(), "%s: appendUpdate is not followed on every path by markHtlcModified(htlcIndex) on updateLogs.%s", m.fn, m.from)
				}
			}
			// no other sibling appends Settle/Fail entries
			allowed := map[string]bool{}
			for _, n := range []string{"SettleHTLC", "FailHTLC", "MalformedFailHTLC", "ReceiveHTLCSettle", "ReceiveFailHTLC"} {
				allowed[lw+"LightningChannel."+n] = true
			}
			for _, f := range p.Funcs(false, "lnwallet") {
				for _, s := range f.Calls(an.CalleeIs(lw+"updateLog.appendUpdate"), false) {
					o.Site("appendUpdate caller %s", s.String())
					if !allowed[f.Root().ID] && f.Root().ID != lw+"LightningChannel.SendFeeUpdate" && f.Root().ID != lw+"LightningChannel.ReceiveFeeUpdate" &&
						f.Root().ID != lw+"updateLog.appendFeeUpdate" && f.Root().ID != lw+"LightningChannel.restorePendingLocalUpdates" && f.Root().ID != lw+"LightningChannel.restorePendingRemoteUpdates" &&
						f.Root().ID != lw+"LightningChannel.restorePeerLocalUpdates" && f.Root().ID != lw+"LightningChannel.UpdateFee" && f.Root().ID != lw+"LightningChannel.ReceiveUpdateFee" {
						o.FailAt("appendUpdate<-"+f.Root().ID, s.Where(), "%s appends a non-Add update to a log but is not one of the guarded settle/fail/fee entry points or the restore path", f.Root().ID)
					}
				}
			}
		})

	r.Obl("update-log-counters", "STATE",
		"updateLog.logIndex and htlcCounter are written only by ++ in appendUpdate/appendHtlc, exactly once per counter and function (the constructor newUpdateLog(logIndex, htlcCounter) stores its first parameter in logIndex and its second in htlcCounter, and its callers pass the <Side>LogIndex / <Side>HtlcIndex pair of one commitment); the restore methods never write them",
		"log indexes identify updates across both peers; a counter that is reset or skipped desynchronises every later commitment", 7,
		func(o *an.Obl) {
			allowed := map[string]map[string]bool{
				"logIndex":    {lw + "updateLog.appendUpdate": true, lw + "updateLog.appendHtlc": true},
				"htlcCounter": {lw + "updateLog.appendHtlc": true},
			}
			for fld, ok := range allowed {
				n := 0
				incs := map[string]int{}
				for _, f := range p.Funcs(false, "lnwallet") {
					for _, s := range f.Assigns(an.Field(lw+"updateLog", fld, nil), false) {
						n++
						o.Site("writer of updateLog.%s: %s", fld, s.String())
						if !ok[f.Root().ID] {
							o.FailAt("updateLog."+fld+"<-"+f.Root().ID, s.Where(), "%s writes updateLog.%s", f.Root().ID, fld)
							continue
						}
						switch st := s.Node.(type) {
						case *ast.IncDecStmt:
							if st.Tok != tokINC {
								o.FailAt("updateLog."+fld+"#dec", s.Where(), "counter is decremented")
							} else {
								incs[f.Root().ID]++
							}
						default:
							// =, +=, -= ...: the counter would skip or repeat an index
							o.FailAt("updateLog."+fld+"#not-increment", s.Where(), "%s writes updateLog.%s by %s; the counters advance by ++ only", f.Root().ID, fld, an.Text(s.Node))
						}
					}
				}
				if n == 0 {
					o.FailAt("updateLog."+fld+"#no-writers", "", "no writer of updateLog.%s found", fld)
				}
				// every append advances each of its counters by exactly one
				for fn := range ok {
					if incs[fn] != 1 {
						o.FailAt("updateLog."+fld+"#increments<-"+fn, "", "%s must advance updateLog.%s exactly once per appended entry; found %d increments", fn, fld, incs[fn])
					}
				}
			}
			// composite literals of updateLog only in the constructor
			for _, ref := range p.CompositeLitsOf(p.LookupType("lnwallet", "updateLog")) {
				id := "<package-level>"
				if ref.Fn != nil {
					id = ref.Fn.ID
				}
				o.Site("updateLog literal in %s", id)
				if id != lw+"newUpdateLog" {
					o.FailAt("updateLog-literal<-"+id, ref.Where, "updateLog constructed outside newUpdateLog")
				}
			}
			c01CounterConstructor(o, p)
		})
	c01RestoreConvertersAgree(r)
	windowDiscipline(r)
	modifiedMarkerDiscipline(r)
	persistRestoreKindAgreement(r)
}

func indexParam(fn string) int {
	switch fn {
	case "SettleHTLC", "ReceiveHTLCSettle":
		return 1
	}
	return 0
}

// mirrorSites checks that the canonical arguments of b are those of a under
// the involution pairs.
func mirrorSites(o *an.Obl, f *an.Func, a, b an.Site, pairs [][2]string, skip ...int) {
	aa, bb := f.ArgCanon(a), f.ArgCanon(b)
	o.Site("mirror %s <-> %s", a.String(), b.String())
	if len(aa) != len(bb) {
		o.FailAt(f.ID+"#mirror-arity", b.Where(), "argument counts differ: %d vs %d", len(aa), len(bb))
		return
	}
	for i := range aa {
		skipped := false
		for _, k := range skip {
			skipped = skipped || k == i
		}
		if skipped {
			continue
		}
		if got := an.Swap(aa[i], pairs); got != bb[i] {
			o.FailAt(f.ID+"#mirror-arg"+itoa(i), b.Where(), "argument %d is not mirrored: %s maps to %s but the other perspective passes %s", i, aa[i], got, bb[i])
		}
	}
}
